#!/usr/bin/env python3
"""Regenerate MANIFEST.json from checks_registry.py (single source of truth)."""
import json, os, sys
sys.path.insert(0, os.path.dirname(os.path.abspath(__file__)))
from checks_registry import CHECKS, NOT_APPLICABLE

props = [json.loads(l)["id"] for l in open(os.path.join(os.path.dirname(os.path.abspath(__file__)), "properties.jsonl"))]
checks = []
for pid in sorted(CHECKS):
    s = CHECKS[pid]
    c = {
        "property_id": pid,
        "quick_cmd": "python3 check.py %s --tier quick" % pid,
        "thorough_cmd": "python3 check.py %s --tier thorough" % pid,
        "evidence_file": "/verif/evidence/%s.json" % pid,
        "replay_cmd_template": "python3 check.py replay {path}",
        "engine": s.get("engine", "enumerator"),
        "level_claimed": {"category": s["level"], "text": s.get("level_text", s["rule"]), "design_ref": s.get("design_ref", "DESIGN.md section 3, " + pid)},
        "level_note": s.get("level_note", "; ".join(s.get("assumptions", [])) or "reference model in harness/ref.hpp"),
        "technique": s.get("technique", "bounded exhaustive enumeration of the input alphabet against a dense-matrix reference model"),
    }
    checks.append(c)
na = [dict(property_id=p, reason=r) for p, r in sorted(NOT_APPLICABLE.items())]
for p in props:
    if p not in CHECKS and p not in NOT_APPLICABLE:
        na.append(dict(property_id=p, reason="check not built yet in this revision of /verif (planned, see DESIGN.md section 3)"))
m = {
    "version": 1,
    "setup_cmd": "python3 check.py setup",
    "hooks": {"guard": "SQUIDS_VERIF", "enable": "no source hooks are needed: scheduling points come from compiler instrumentation of the harness TU and from a replaced operator new[]; the guard name is reserved",
              "baseline_off_cmd": "cd /repo && make && make test", "source_commits": [], "add_only": True},
    "engines": [
        {"name": "enumerator", "path": "/verif/check.py", "serves_properties": [p for p in sorted(CHECKS) if CHECKS[p].get("engine", "enumerator") == "enumerator"],
         "kind_free_text": "exhaustive enumeration of bounded input alphabets on the compiled library against an independent dense-matrix reference (harness/ref.hpp)"},
        {"name": "history-explorer", "path": "/verif/harness/hist.cpp", "serves_properties": [p for p in sorted(CHECKS) if CHECKS[p].get("engine") == "history-explorer"],
         "kind_free_text": "explicit-state breadth-first search over operation histories replayed on the real objects, canonical-key deduplication, arena allocator with ledger"},
        {"name": "schedule-explorer", "path": "/verif/harness/sched.hpp", "serves_properties": [p for p in sorted(CHECKS) if CHECKS[p].get("engine") == "schedule-explorer"],
         "kind_free_text": "stateless preemption-bounded DFS over thread interleavings with state hashing; scheduling points placed by compiler instrumentation"},
    ],
    "checks": checks,
    "not_applicable": na,
    "notes": "All checks: cwd=/verif, rebuild from /repo working tree (content-hashed cache in /verif/build). Known findings: /verif/known_findings.txt.",
}
json.dump(m, open(os.path.join(os.path.dirname(os.path.abspath(__file__)), "MANIFEST.json"), "w"), indent=1)
print("MANIFEST.json: %d checks, %d not_applicable" % (len(checks), len(na)))
