#pragma once
#include <cstddef>
struct CacheOps { void (*construct)(void*); int (*insert)(void*, int); int (*get)(void*); size_t size; };
extern const CacheOps OpsShared[5];  // index = capacity N (1..4), lock-free shared variant, instrumented
extern const CacheOps OpsTL[5];      // thread-local (single-threaded) variant
