// C07: Pade matrix exponential accuracy over families x norms x sizes x call histories; UTransform(V, i s).
#define VF_EARLY
#include "bind.hpp"
#include <SQuIDS/detail/MatrixExp.h>
using namespace vf;

static long long g_idx = 0;
static const double PI = 3.14159265358979323846;

static Mat herm(int n, int w) { Mat m(n); for (int i = 0; i < n; i++) for (int j = 0; j < n; j++) { cd z(std::cos(1.3 * i + 0.7 * j + w), std::sin(0.4 * i - 1.1 * j + 0.5 * w)); m(i, j) += z; m(j, i) += std::conj(z); } return m; }
static Mat unitary(int d, int which) {
  Mat U = ref::eye(d);
  for (int i = 0; i < d; i++) for (int j = i + 1; j < d; j++) {
    double th = 0.4 + 0.37 * i + 0.23 * j + 0.9 * which, de = 0.3 * (i + 1) - 0.2 * j;
    Mat R = ref::eye(d); R(i, i) = std::cos(th); R(j, j) = std::cos(th); R(i, j) = std::sin(th) * std::exp(cd(0, -de)); R(j, i) = -std::sin(th) * std::exp(cd(0, de));
    U = R * U;
  }
  return U;
}

struct Family { const char* name; bool normal; double maxnorm; };
static const Family FAM[] = {{"anti-hermitian", true, 1e3}, {"complex-diagonal", true, 50}, {"nilpotent", false, 50}, {"dense-nonnormal", false, 50}, {"normal-bounded-real", true, 1e3}, {"rank-one", false, 50}, {"block-2+rest", false, 50}, {"strictly-lower-triangular", false, 50}, {"lower-triangular", false, 50}, {"single-offdiagonal-entry", false, 50},
                             {"zero-row-sums-anti-hermitian", true, 50}, {"decoupled-levels-normal", true, 50}, {"rank-one-nilpotent", false, 50}};
static const int NFAM = 13;

static Mat shape(int f, int n, int w) {
  Mat m(n);
  switch (f) {
    case 0: m = cd(0, 1) * herm(n, w); break;
    case 1: for (int i = 0; i < n; i++) m(i, i) = cd(std::cos(2.1 * i + w) - 0.3, std::sin(1.7 * i + 0.3 * w)); break;
    case 2: for (int i = 0; i < n; i++) for (int j = i + 1; j < n; j++) m(i, j) = cd(1.0 + 0.3 * i - 0.2 * j + 0.1 * w, 0.5 * (i + 1) - 0.4 * j); break;
    case 3: for (int i = 0; i < n; i++) for (int j = 0; j < n; j++) m(i, j) = cd(std::sin(1.0 + 2.3 * i + 0.9 * j + w), std::cos(0.3 + 1.1 * i - 1.9 * j + 0.7 * w)) * (1.0 + 0.2 * ((i + 2 * j) % 3)); break;
    case 4: { Mat W = unitary(n, w), D(n); for (int i = 0; i < n; i++) D(i, i) = cd(-0.02 * i - 0.001, (i % 2 ? 1.0 : -0.7) * (1 + 0.37 * i)); m = W * D * ref::dagger(W); } break;
    case 5: for (int i = 0; i < n; i++) for (int j = 0; j < n; j++) m(i, j) = cd(std::cos(0.9 * i + w), std::sin(1.3 * i)) * std::conj(cd(std::sin(0.7 * j + 1 + w), std::cos(2.1 * j))); break;
    case 7: for (int i = 0; i < n; i++) for (int j = 0; j < i; j++) m(i, j) = cd(1.0 + 0.3 * i - 0.2 * j + 0.1 * w, 0.5 * (i + 1) - 0.4 * j); break;
    case 8: for (int i = 0; i < n; i++) for (int j = 0; j <= i; j++) m(i, j) = cd(std::cos(1.0 + 0.3 * i - 0.2 * j + 0.1 * w), (i == j) ? 0.3 * i - 0.4 : 0.5 * (i + 1) - 0.4 * j); break;
    case 9: for (int i = 0; i < n; i++) m(i, i) = cd(0.2 * i - 0.3, 0.1 * i); m(n - 1, 0) = cd(0.9, -0.4 - 0.1 * w); break;   // one entry in the lower-left corner
    // i*L with L a weighted graph Laplacian: the all-ones vector (and, for the pair graph, many +-1 vectors) is in the kernel, so a
    // norm estimate started from such vectors sees zero although the matrix is large
    case 10: { Mat L(n); auto edge = [&](int i, int j, double wt) { L(i, i) += wt; L(j, j) += wt; L(i, j) -= wt; L(j, i) -= wt; };
      if (w % 2 == 0 || n < 4) edge(n - 2, n - 1, 1.0); else { edge(n - 4, n - 3, 1.0); edge(n - 4, n - 2, -1.0); edge(n - 3, n - 1, -1.0); edge(n - 2, n - 1, 1.0); }
      m = cd(0, 1) * L; } break;
    // a normal matrix whose first levels are decoupled from a rotated pair: eigenvalue mu on (..,1,1)/sqrt2 and i*w on (..,1,-1)/sqrt2, zeros elsewhere
    case 11: { cd mu = (w % 2 == 0) ? cd(1.0 / 40, 0) : cd(0.5 / 12, 0), iw = cd(0, 1); int a = n - 2, b = n - 1;
      m(a, a) = (mu + iw) * 0.5; m(b, b) = (mu + iw) * 0.5; m(a, b) = (mu - iw) * 0.5; m(b, a) = (mu - iw) * 0.5; } break;
    // x y^dagger with y^dagger x = 0 (non-triangular, A^2 = 0 although |A| is far from nilpotent); w odd: plus a 1e-7 perturbation
    case 12: { std::vector<cd> x(n), y(n); for (int i = 0; i < n; i++) { x[i] = cd(1.0 + 0.2 * i, 0.3 * (i % 2)); y[i] = cd(std::cos(0.8 * i + 0.3), std::sin(0.5 * i)); }
      cd dot = 0, xx = 0; for (int i = 0; i < n; i++) { dot += std::conj(y[i]) * x[i]; xx += std::conj(x[i]) * x[i]; } for (int i = 0; i < n; i++) y[i] -= std::conj(dot / xx) * x[i];   // now y^dagger x = 0
      for (int i = 0; i < n; i++) for (int j = 0; j < n; j++) m(i, j) = x[i] * std::conj(y[j]);
      if (w % 2) { double mx = ref::maxabs(m); for (int i = 0; i < n; i++) for (int j = 0; j < n; j++) m(i, j) += cd(1e-7 * mx * std::sin(1.0 + 2.3 * i + 0.9 * j), 1e-7 * mx * std::cos(0.3 + i - 1.9 * j)); } } break;
    case 6: { m(0, 0) = cd(0.3, 1); m(0, 1) = cd(1, -0.5); m(1, 0) = cd(-0.7, 0.2); m(1, 1) = cd(-0.3, -1); for (int i = 2; i < n; i++) for (int j = 2; j < n; j++) m(i, j) = cd(std::sin(1.0 + 2.3 * i + 0.9 * j + w), (i == j) ? 0.4 : std::cos(i - 1.9 * j)); } break;
  }
  return m;
}

struct Case { int n, fam; double norm; Mat A, want; double tol; std::string name; };

static Case make_case(int n, int f, int w, double target) {
  Case c; c.n = n; c.fam = f; c.norm = target;
  Mat S = shape(f, n, w); double s1 = ref::norm1(S);
  c.A = cd(s1 > 0 ? target / s1 : 0.0, 0) * S;
  c.want = ref::expm(c.A);
  double kappa = 1;
  if (!FAM[f].normal) { Mat absA(n); for (size_t i = 0; i < absA.a.size(); i++) absA.a[i] = std::abs(c.A.a[i]); kappa = std::max(1.0, ref::norm1(ref::expm(absA)) / ref::norm1(c.want)); }
  c.tol = 256 * ref::EPS * std::max(1.0, target) * kappa;
  c.name = FAM[f].name;
  return c;
}

// returns relative 1-norm error, or -1 if the library threw
static double run_case(const Case& c, std::string* what = nullptr) {
  GslMat A(c.A), eA(c.n, c.n);
  try { squids::math_detail::matrix_exponential(eA.g, A.g); }
  catch (const std::exception& e) { if (what) *what = e.what(); return -1; }
  Mat got = gsl2mat(eA.g);
  { // the same matrix as a window of a larger block (row stride != n), result into a window as well: bit-identical
    GslMat bigA(c.n + 2, c.n + 3), bigE(c.n + 1, c.n + 2);
    for (int i = 0; i < c.n + 2; i++) for (int j = 0; j < c.n + 3; j++) gsl_matrix_complex_set(bigA.g, i, j, gsl_complex_rect(7.5 + i, -3.25 * j));
    gsl_matrix_complex_view va = gsl_matrix_complex_submatrix(bigA.g, 1, 1, c.n, c.n), ve = gsl_matrix_complex_submatrix(bigE.g, 0, 1, c.n, c.n);
    gsl_matrix_complex_memcpy(&va.matrix, A.g);
    try { squids::math_detail::matrix_exponential(&ve.matrix, &va.matrix); } catch (const std::exception& e) { if (what) *what = std::string("strided view: ") + e.what(); return -1; }
    Mat gv = gsl2mat(&ve.matrix); bool same = true; for (size_t k = 0; k < gv.a.size(); k++) if (!(gv.a[k] == got.a[k]) && !(std::isnan(gv.a[k].real()) && std::isnan(got.a[k].real()))) same = false;
    if (!same) return INFINITY;
  }
  if (!ref::finite(got)) return INFINITY;
  return ref::norm1(got - c.want) / ref::norm1(c.want);
}

static void judge(const Case& c, double err, const std::string& what, const std::string& hist) {
  std::string cls = "n=" + std::to_string(c.n) + ":" + c.name;
  std::vector<double> flat; for (auto& z : c.A.a) { flat.push_back(z.real()); flat.push_back(z.imag()); }
  if (err < 0) { violation("matrix_exponential:throws:" + cls, J().i("n", c.n).str("family", c.name).num("norm1", c.norm).str("what", what).str("history", hist).arr("A_re_im_rowmajor", flat).done()); return; }
  maxstat(std::string("relerr/tol:") + c.name, err / c.tol);
  if (!(err <= c.tol)) violation("matrix_exponential:inaccurate:" + cls, J().i("n", c.n).str("family", c.name).num("norm1", c.norm).num("relerr", err).num("tol", c.tol).str("history", hist).arr("A_re_im_rowmajor", flat).done());
}

int main(int argc, char** argv) {
  Args ar = parse(argc, argv); quiet_gsl();
  bool th = ar.thorough();
  const char* rs = getenv("GSL_RNG_SEED"); info("GSL_RNG_SEED", rs ? rs : "(unset)");
  // ---- norm grid ----
  std::vector<double> norms = {0, 1e-8};
  int nlog = ar.reduced ? 6 : (th ? 60 : 24);
  for (int i = 0; i < nlog; i++) norms.push_back(1e-4 * std::pow(50 / 1e-4, (double)i / (nlog - 1)));
  const double theta[] = {1.495585217958292e-2, 2.539398330063230e-1, 9.504178996162932e-1, 2.097847961257068, 4.25};
  for (double t : theta) { norms.push_back(t * 0.99); norms.push_back(t * 1.01); }
  std::vector<double> big = {100, 300, 1e3};
  // ---- (1) single calls ----
  for (int n = 2; n <= 6; n++) for (int f = 0; f < NFAM; f++) {
    if (f == 6 && n < 3) continue;
    for (int w = 0; w < (th ? 2 : 1); w++) {
      std::vector<double> N = norms; if (FAM[f].maxnorm > 50 && !ar.reduced) for (double b : big) N.push_back(b);
      for (double target : N) {
        count("evaluations");
        Case c = make_case(n, f, w, target);
        { uint64_t h = ref::fnv(c.A.a.data(), c.A.a.size() * sizeof(cd), n); if (target > 0) distinct(h); }
        sample_every(g_idx++, 211, J().str("entry", "matrix_exponential").i("n", n).str("family", c.name).num("norm1", target).done());
        std::string what; double e = run_case(c, &what);
        judge(c, e, what, "single call");
      }
    }
  }
  // ---- (2) call histories: all ordered triples over 5 sizes x 5 norm bands ----
  if (!ar.reduced) {
    std::vector<Case> reps;
    const double bandnorm[] = {5e-3, 0.1, 0.6, 1.6, 12.0};
    for (int n = 2; n <= 6; n++) for (int b = 0; b < 5; b++) reps.push_back(make_case(n, (n + b) % 2 ? 3 : 0, b, bandnorm[b]));
    size_t R = reps.size();
    for (size_t i = 0; i < R; i++) for (size_t j = 0; j < R; j++) for (size_t k = 0; k < R; k++) {
      count("evaluations"); count("history_triples");
      distinct(ref::fnv(&i, 8, 31) ^ ref::fnv(&j, 8, 57) * 3 ^ ref::fnv(&k, 8, 91) * 7);
      std::string hist = fmt("triple(%zu,%zu,%zu) of (n,band)", i, j, k);
      std::string w1, w2, w3;
      double e1 = run_case(reps[i], &w1), e2 = run_case(reps[j], &w2), e3 = run_case(reps[k], &w3);
      judge(reps[i], e1, w1, hist + " call 1"); judge(reps[j], e2, w2, hist + " call 2"); judge(reps[k], e3, w3, hist + " call 3");
    }
  }
  // ---- (3) UTransform(V, i s) ----
  for (int d = 2; d <= 6; d++) {
    const ref::Basis& B = ref::basis(d); int nn = d * d;
    std::vector<std::vector<double>> Vs;
    for (int k = 0; k < nn; k++) Vs.push_back(unit(d, k));
    if (!ar.reduced) for (int k = 1; k < nn; k += (th ? 1 : 3)) for (int l = k + 1; l < nn; l += (th ? 1 : 2)) Vs.push_back(twohot(d, k, l, 1.0, -0.7));
    for (int w = 0; w < 3; w++) Vs.push_back(probe(d, w));
    // large multiples of operators with the all-ones vector in their kernel: c * projector onto (e_i - e_j)/sqrt2, c * 4-cycle pattern; c * single projectors
    if (!ar.reduced) for (double c : {1.2, 3.0}) {   // times |s| = 10 below: norms 12..60
      { Mat P(d); int a = d - 2, b = d - 1; P(a, a) = 0.5; P(b, b) = 0.5; P(a, b) = -0.5; P(b, a) = -0.5; Vs.push_back(scaled(B.proj(P), c)); }
      if (d >= 4) { Mat P(d); const int pat[4][4] = {{0, 1, -1, 0}, {1, 0, 0, -1}, {-1, 0, 0, 1}, {0, -1, 1, 0}}; for (int i = 0; i < 4; i++) for (int j = 0; j < 4; j++) P(d - 4 + i, d - 4 + j) = pat[i][j]; Vs.push_back(scaled(B.proj(P), c)); }
      Vs.push_back(scaled(B.proj(ref::E(d, d - 1, d - 1)), c));
    }
    std::vector<std::vector<double>> As = {probe(d, 1), unit(d, 1), unit(d, nn - 1)};
    for (auto& vc : Vs) for (double s : {0.0, 0.3, -0.3, 1.0, -2.5, 10.0}) {
      Mat V = B.tomat(vc); Mat Ef = ref::expm(cd(0, s) * V), Eb = ref::dagger(Ef);
      SU_vector Vv = mkvec(d, vc);
      for (auto& ac : As) {
        count("evaluations");
        { uint64_t h = hashvec(vc, d); h = ref::fnv(&s, 8, h); h = hashvec(ac, h); if (s != 0) distinct(h); }
        sample_every(g_idx++, 1499, J().str("entry", "UTransform(V,i*s)").i("d", d).arr("V", vc).num("s", s).arr("A", ac).done());
        SU_vector A = mkvec(d, ac);
        std::string ctx = J().i("d", d).arr("V", vc).num("s", s).arr("A", ac).done();
        std::string cls = std::string("d=") + std::to_string(d);
        try {
          SU_vector r = A.UTransform(Vv, gsl_complex_rect(0, s));
          std::vector<double> want = B.proj(Eb * B.tomat(ac) * Ef), got = comps(r);
          double vn = ref::norm1(V) * std::fabs(s), tol = 256 * d * ref::EPS * std::max(1.0, vn) * maxabs(ac);
          double e = maxdiff(got, want);
          maxstat("UTransform_err/tol", e / tol);
          if (!(e <= tol)) violation("UTransform(V,is):mismatch:" + cls, "{\"ctx\":" + ctx + ",\"got\":" + jarr(got) + ",\"want\":" + jarr(want) + ",\"err\":" + jnum(e) + "}");
          double n0 = A * A, n1 = r * r;
          if (!(std::fabs(n1 - n0) <= 64 * d * d * tol * maxabs(ac))) violation("UTransform(V,is):norm-not-preserved:" + cls, ctx);
          // the generator may be the transformed vector itself (const reference to *this): exp(-isA) A exp(isA) = A
          if (&ac == &As[0]) { SU_vector X = mkvec(d, vc); SU_vector rx = X.UTransform(X, gsl_complex_rect(0, s)); double ex = maxdiff(comps(rx), vc); count("evaluations");
            if (!(ex <= 256 * d * ref::EPS * std::max(1.0, vn) * maxabs(vc))) violation("UTransform(V,is):generator-aliases-vector:" + cls, "{\"ctx\":" + ctx + ",\"err\":" + jnum(ex) + "}"); }
          SU_vector back = r.UTransform(Vv, gsl_complex_rect(0, -s));
          double eb = maxdiff(comps(back), ac);
          if (!(eb <= 4 * tol)) violation("UTransform(V,is):not-inverted-by-minus-s:" + cls, "{\"ctx\":" + ctx + ",\"err\":" + jnum(eb) + "}");
        } catch (const std::exception& ex) {
          violation("UTransform(V,is):throws:" + cls, "{\"ctx\":" + ctx + ",\"what\":" + jstr(ex.what()) + "}");
        }
      }
    }
  }
  // the generator object is updated in place (same storage, same dimension, same scale) between two transforms; and a new generator
  // is built on the storage a destroyed one released
  for (int d = 2; d <= 6; d++) { const ref::Basis& B = ref::basis(d); SU_vector A = mkvec(d, probe(d, 1)); Mat Am = B.tomat(probe(d, 1));
    SU_vector V = mkvec(d, probe(d, 0));
    for (int step = 0; step < 4; step++) {
      std::vector<double> vc = step == 0 ? probe(d, 0) : (step == 1 ? probe(d, 2) : (step == 2 ? scaled(probe(d, 2), 2.0) : unit(d, 1)));
      if (step == 1) V = mkvec(d, vc); else if (step == 2) V *= 2.0; else if (step == 3) { for (int k = 0; k < d * d; k++) V[k] = vc[k]; }
      for (double s : {0.3, -1.0, 0.3}) { count("evaluations");   // the last scale of one step is the first of the next: only the generator's contents changed in between
        Mat Ef = ref::expm(cd(0, s) * B.tomat(vc)); std::vector<double> want = B.proj(ref::dagger(Ef) * Am * Ef);
        SU_vector r = A.UTransform(V, gsl_complex_rect(0, s)); double e = maxdiff(comps(r), want), tol = 256 * d * ref::EPS * std::max(1.0, ref::norm1(B.tomat(vc)) * std::fabs(s)) * maxabs(probe(d, 1));
        if (!(e <= tol)) violation("UTransform(V,is):generator-updated-in-place:d=" + std::to_string(d), J().i("d", d).i("step", step).num("s", s).num("err", e).done());
        { SU_vector W = mkvec(d, vc); SU_vector r2 = A.UTransform(W, gsl_complex_rect(0, s)); double e2 = maxdiff(comps(r2), want); if (!(e2 <= tol)) violation("UTransform(V,is):generator-on-recycled-storage:d=" + std::to_string(d), J().i("d", d).i("step", step).num("s", s).num("err", e2).done()); }
      }
    }
  }
  check_early({7});
  finish();
  return 0;
}
