// C01: SU_vector <-> Hermitian matrix, linear operations, ==, Transpose, Real/Imag.
#define VF_EARLY
#include "bind.hpp"
using namespace vf;

static std::string dsig(const char* s, int d) { return std::string(s) + ":d=" + std::to_string(d); }
static bool bitsame(const SU_vector& a, const std::vector<double>& c) { if (a.Size() != c.size()) return false; for (unsigned i = 0; i < a.Size(); i++) if (!ref::biteq(a[i], c[i])) return false; return true; }

static std::vector<std::vector<double>> vec_alphabet(int d, bool thorough, bool reduced) {
  std::vector<std::vector<double>> A;
  int n = d * d;
  A.push_back(std::vector<double>(n, 0.0));
  for (int k = 0; k < n; k++) A.push_back(unit(d, k));
  for (int k = 0; k < n; k++) A.push_back(unit(d, k, -2.5));
  for (int k = 0; k < n; k++) A.push_back(unit(d, k, (k % 2 ? -1.0 : 1.0) * 1.3e308));   // above DBL_MAX/2: nothing in a conversion may add a component to itself
  if (!reduced) for (int k = 0; k < n; k++) for (int l = k + 1; l < n; l++) A.push_back(twohot(d, k, l, 1.0, 2.0));
  for (int w = 0; w < 3; w++) {
    A.push_back(probe(d, w));
    A.push_back(scaled(probe(d, w), 1e150)); A.push_back(scaled(probe(d, w), 1e-150));
    if (thorough) { A.push_back(scaled(probe(d, w), 1e-300)); A.push_back(scaled(probe(d, w), 3e-310)); }
  }
  return A;
}

static void check_conversions(int d, const std::vector<double>& c, long long idx) {
  const ref::Basis& B = ref::basis(d);
  maybe_pollute(d);
  count("evaluations");
  double mag = maxabs(c);
  if (mag > 0) distinct(hashvec(c, d));
  sample_every(idx, 997, J().str("kind", "vector->matrix->vector").i("d", d).arr("components", c).done());
  SU_vector v = mkvec(d, c);
  const double DENORM = 4.9406564584124654e-324;
  double tol = 8 * d * ref::EPS * mag + 64 * d * DENORM;   // eps-relative accuracy is not attainable for subnormal magnitudes: absolute floor of a few subnormal ulps
  // vector -> matrix
  auto gm = v.GetGSLMatrix();
  Mat M = gsl2mat(gm.get()), want = B.tomat(c);
  double e1 = ref::maxabs(M - want);
  if (mag > 0) maxstat("to_matrix_err/tol", e1 / tol);
  // a single component above DBL_MAX/2 whose matrix is still representable: its own signature (input class), named by the slot
  bool huge = mag > 8.9e307; int hslot = -1; if (huge) for (size_t k = 0; k < c.size(); k++) if (std::fabs(c[k]) > 8.9e307) hslot = (int)k;
  if (!(e1 <= tol)) {
    if (huge && ref::finite(want)) { violation(dsig(fmt("GetGSLMatrix:overflow-although-the-matrix-is-representable:slot=%d", hslot).c_str(), d), J().i("d", d).arr("components", c).done()); return; }   // nothing downstream of a non-finite matrix is judged
    violation(dsig("GetGSLMatrix:mismatch", d), J().i("d", d).arr("components", c).num("err", e1).num("tol", tol).done());
  }
  double hd = ref::hermiticity_defect(M);
  if (!(hd <= tol)) violation(dsig("GetGSLMatrix:not-hermitian", d), J().i("d", d).arr("components", c).num("defect", hd).done());
  // second overload writes into a caller matrix
  { GslMat g2(d, d); v.GetGSLMatrix(g2.g); double e = ref::maxabs(gsl2mat(g2.g) - M); if (!(e == 0)) violation(dsig("GetGSLMatrix(out):differs-from-returning-overload", d), J().i("d", d).arr("components", c).done()); }
  // matrix -> vector (round trip)
  SU_vector back(gm.get());
  std::vector<double> bc = comps(back);
  double e2 = maxdiff(bc, c);
  if (mag > 0) maxstat("roundtrip_err/tol", e2 / tol);
  if ((int)back.Dim() != d || !(e2 <= tol)) violation(dsig("SU_vector(matrix):roundtrip", d), J().i("d", d).arr("components", c).arr("back", bc).num("err", e2).num("tol", tol).done());
  // component list round trip: exact
  std::vector<double> lst = v.GetComponents();
  if (lst.size() != c.size() || !bitsame(v, lst)) violation(dsig("GetComponents:not-exact", d), J().i("d", d).arr("components", c).arr("got", lst).done());
  { // every call hands out a list of its own: an earlier result, held by reference (a lifetime-extended temporary) while
    // other vectors are read out, keeps its value and size; the same for the matrices
    SU_vector other = mkvec(d == 2 ? 3 : 2, probe(d == 2 ? 3 : 2, 1)), neg = -v;
    const std::vector<double>& held = v.GetComponents();
    const std::vector<double>& held2 = neg.GetComponents();
    const std::vector<double>& held3 = other.GetComponents();
    bool ok = held.size() == c.size() && held2.size() == c.size() && held3.size() == other.Size();
    for (size_t k = 0; ok && k < c.size(); k++) if (!ref::biteq(held[k], c[k]) || !ref::biteq(held2[k], -c[k])) ok = false;
    if (ok && mag > 0 && v.GetComponents() == neg.GetComponents()) ok = false;
    auto m1 = v.GetGSLMatrix(); auto m2 = neg.GetGSLMatrix(); auto m3 = other.GetGSLMatrix();
    if (ok && (m1->size1 != (size_t)d || ref::maxabs(gsl2mat(m1.get()) - M) != 0 || ref::maxabs(gsl2mat(m2.get()) + M) != 0)) ok = false;
    if (!ok) violation(dsig("GetComponents/GetGSLMatrix:results-share-state", d), J().i("d", d).arr("components", c).done());
  }
  SU_vector fromlist(lst);
  if ((int)fromlist.Dim() != d || !bitsame(fromlist, c)) violation(dsig("SU_vector(list):not-exact", d), J().i("d", d).arr("components", c).arr("got", comps(fromlist)).done());
  // Transpose / Real / Imag
  SU_vector t = v; t.Transpose();
  double e3 = ref::maxabs(B.tomat(comps(t)) - ref::transpose(want));
  if (!(e3 <= tol)) violation(dsig("Transpose:mismatch", d), J().i("d", d).arr("components", c).num("err", e3).done());
  SU_vector re = v.Real(), im = v.Imag();
  double e4 = ref::maxabs(B.tomat(comps(re)) - ref::realpart(want)), e5 = ref::maxabs(B.tomat(comps(im)) - ref::imagpart_i(want));
  if (!(e4 <= tol)) violation(dsig("Real:mismatch", d), J().i("d", d).arr("components", c).num("err", e4).done());
  if (!(e5 <= tol)) violation(dsig("Imag:mismatch", d), J().i("d", d).arr("components", c).num("err", e5).done());
  SU_vector sum = re + im;
  if (!(sum == v)) violation(dsig("Real+Imag:not-identity", d), J().i("d", d).arr("components", c).done());
  // equality is equality of components as numbers: a zero produced with a sign bit (negation, Transpose, 0*x) equals +0
  std::vector<double> cz = c; for (auto& x : cz) if (x == 0) x = -0.0;
  SU_vector vz = mkvec(d, cz);
  if (!(v == vz) || !(vz == v)) violation(dsig("operator==:signed-zero-components-unequal", d), J().i("d", d).arr("components", c).done());
  { SU_vector n1 = -v, n2 = v * (-1.0); if (!(n1 == n2)) violation(dsig("operator==:negation-vs-scalar-minus-one", d), J().i("d", d).arr("components", c).done()); }
  bool symmetric = true; for (int i = 0; i < d; i++) for (int j = i + 1; j < d; j++) if (c[(size_t)d * j + i] != 0) symmetric = false;
  if (symmetric && !(t == v)) violation(dsig("operator==:transpose-of-real-symmetric-unequal", d), J().i("d", d).arr("components", c).done());
  { SU_vector z0 = v * 0.0, z1 = (-v) * 0.0; if (mag < 1e300 && !(z0 == z1)) violation(dsig("operator==:zero-multiples-unequal", d), J().i("d", d).arr("components", c).done()); }
}

static void check_matrix_input(int d, const Mat& m, const char* kind, long long idx) {
  const ref::Basis& B = ref::basis(d);
  maybe_pollute(d, 7);
  count("evaluations");
  std::vector<double> want = B.proj(m);
  if (ref::maxabs(m) > 0) distinct(ref::fnv(m.a.data(), m.a.size() * sizeof(cd), 77 + d));
  GslMat g(m);
  SU_vector v(g.g);
  std::vector<double> got = comps(v);
  double tol = 8 * d * ref::EPS * ref::maxabs(m) + 64 * d * 4.9406564584124654e-324;
  double e = maxdiff(got, want);
  sample_every(idx, 41, J().str("kind", std::string("matrix->vector ") + kind).i("d", d).arr("expected_components", want).done());
  if (ref::maxabs(m) > 0) maxstat("from_matrix_err/tol", e / tol);
  if ((int)v.Dim() != d || !(e <= tol)) violation(dsig("SU_vector(matrix):not-trace-projection", d), J().i("d", d).str("matrix", kind).arr("got", got).arr("want", want).num("err", e).done());
  // the same matrix presented as a d x d view inside a larger matrix (row stride tda != size2) is the same input
  { gsl_matrix_complex* big = gsl_matrix_complex_alloc(8, 8); gsl_matrix_complex_set_all(big, gsl_complex_rect(9.5, -7.25));
    gsl_matrix_complex_view vw = gsl_matrix_complex_submatrix(big, 1, 2, d, d);
    for (int i = 0; i < d; i++) for (int j = 0; j < d; j++) gsl_matrix_complex_set(&vw.matrix, i, j, gsl_complex_rect(m(i, j).real(), m(i, j).imag()));
    SU_vector v2(&vw.matrix); std::vector<double> g2 = comps(v2);
    if ((int)v2.Dim() != d || maxdiff(g2, got) != 0) violation(dsig("SU_vector(matrix):strided-view-differs-from-contiguous", d), J().i("d", d).str("matrix", kind).arr("from_view", g2).arr("from_contiguous", got).done());
    gsl_matrix_complex_view ow = gsl_matrix_complex_submatrix(big, 0, 0, d, d); v.GetGSLMatrix(&ow.matrix);
    double ev = ref::maxabs(gsl2mat(&ow.matrix) - gsl2mat(v.GetGSLMatrix().get()));
    bool outside_touched = false; for (int i = 0; i < 8; i++) for (int j = 0; j < 8; j++) if ((i >= d || j >= d) && !(i >= 1 && i < 1 + d && j >= 2 && j < 2 + d)) { gsl_complex z = gsl_matrix_complex_get(big, i, j); if (GSL_REAL(z) != 9.5 || GSL_IMAG(z) != -7.25) outside_touched = true; }
    if (ev != 0 || outside_touched) violation(dsig("GetGSLMatrix(out):strided-view", d), J().i("d", d).str("matrix", kind).num("err", ev).i("wrote_outside_view", outside_touched).done());
    gsl_matrix_complex_free(big); count("evaluations"); }
  // and back to the same matrix
  double e2 = ref::maxabs(gsl2mat(v.GetGSLMatrix().get()) - m);
  if (!(e2 <= tol)) violation(dsig("matrix-roundtrip", d), J().i("d", d).str("matrix", kind).num("err", e2).done());
}

static const double SCAL[] = {0, 1, -1, 2, 0.5, -3.25, 1e-3, 1e3};

static void check_ops(int d, const std::vector<double>& a, const std::vector<double>& b, long long idx, bool with_matrix) {
  int n = d * d;
  count("evaluations");
  { uint64_t h = hashvec(a, d); h = hashvec(b, h); if (maxabs(a) > 0 || maxabs(b) > 0) distinct(h ^ 0x9e37); }
  sample_every(idx, 4001, J().str("kind", "binary ops a+b,a-b,-a,s*a,+=,-=,*=,/=").i("d", d).arr("a", a).arr("b", b).done());
  SU_vector va = mkvec(d, a), vb = mkvec(d, b);
  auto cmp = [&](const char* op, const SU_vector& r, const std::vector<double>& want, double ulps) {
    bool ok = (int)r.Dim() == d;
    for (int k = 0; ok && k < n; k++) if (!ref::close_ulp(r[k], want[k], ulps)) ok = false;
    if (!ok) violation(dsig((std::string(op) + ":componentwise").c_str(), d), J().i("d", d).arr("a", a).arr("b", b).arr("got", comps(r)).arr("want", want).done());
  };
  std::vector<double> w(n);
  for (int k = 0; k < n; k++) w[k] = a[k] + b[k];
  { SU_vector r = va + vb; cmp("operator+", r, w, 0); SU_vector r2 = va; r2 += vb; cmp("operator+=", r2, w, 0); SU_vector r3 = vb + va; cmp("operator+(commuted)", r3, w, 0); }
  for (int k = 0; k < n; k++) w[k] = a[k] - b[k];
  { SU_vector r = va - vb; cmp("operator-", r, w, 0); SU_vector r2 = va; r2 -= vb; cmp("operator-=", r2, w, 0); }
  for (int k = 0; k < n; k++) w[k] = -a[k];
  { SU_vector r = -va; cmp("negation", r, w, 0); }
  // every value category of the operands: temporaries, moved-from vectors and expression results on either side
  {
    std::vector<double> sum(n), dif(n), rdif(n), d2(n), s2(n);
    for (int k = 0; k < n; k++) { sum[k] = a[k] + b[k]; dif[k] = a[k] - b[k]; rdif[k] = b[k] - a[k]; double t = b[k] * 2.0; d2[k] = a[k] - t; s2[k] = a[k] + t; }
    { SU_vector c = vb; SU_vector r = va - std::move(c); cmp("a-move(b)", r, dif, 0); }
    { SU_vector r = va - SU_vector(vb); cmp("a-SU_vector(b)", r, dif, 0); }
    { SU_vector r = va - vb * 2.0; cmp("a-(b*2)", r, d2, 0); }
    { SU_vector r = va + vb * 2.0; cmp("a+(b*2)", r, s2, 0); }
    { SU_vector c = va; SU_vector r = std::move(c) - vb; cmp("move(a)-b", r, dif, 0); }
    { SU_vector c = va, e = vb; SU_vector r = std::move(c) - std::move(e); cmp("move(a)-move(b)", r, dif, 0); }
    { SU_vector c = vb; SU_vector r = va + std::move(c); cmp("a+move(b)", r, sum, 0); }
    { SU_vector c = va; SU_vector r = std::move(c) + vb; cmp("move(a)+b", r, sum, 0); }
    { SU_vector c = va, e = vb; SU_vector r = std::move(c) + std::move(e); cmp("move(a)+move(b)", r, sum, 0); }
    { SU_vector r = SU_vector(vb) - va; cmp("SU_vector(b)-a", r, rdif, 0); }
    { SU_vector r(d); r = va - SU_vector(vb); cmp("r=a-SU_vector(b)", r, dif, 0); SU_vector q = mkvec(d, std::vector<double>(n, 0.0)); q += va - SU_vector(vb); cmp("q+=a-SU_vector(b)", q, dif, 0); }
    { SU_vector c = va; SU_vector r = -std::move(c); std::vector<double> ng(n); for (int k = 0; k < n; k++) ng[k] = -a[k]; cmp("-move(a)", r, ng, 0); }
    { SU_vector c = va; c -= SU_vector(vb); cmp("a-=SU_vector(b)", c, dif, 0); SU_vector e = va; e += SU_vector(vb); cmp("a+=SU_vector(b)", e, sum, 0); }
  }
  { // compound assignment from an expression that contains the target itself
    std::vector<double> w1(n), w2(n), w3(n), w4(n), w5(n), w6(n);
    for (int k = 0; k < n; k++) { double s1 = a[k] + b[k], s2 = b[k] + a[k], d1 = a[k] - b[k], m = a[k] * 2.0, ng = -a[k]; w1[k] = a[k] + s1; w2[k] = a[k] - s1; w3[k] = a[k] + s2; w4[k] = a[k] - d1; w5[k] = a[k] + m; w6[k] = a[k] - ng; }
    { SU_vector v = va; v += v + vb; cmp("v+=v+w", v, w1, 0); }
    { SU_vector v = va; v -= v + vb; cmp("v-=v+w", v, w2, 0); }
    { SU_vector v = va; v += vb + v; cmp("v+=w+v", v, w3, 0); }
    { SU_vector v = va; v -= v - vb; cmp("v-=v-w", v, w4, 0); }
    { SU_vector v = va; v += v * 2.0; cmp("v+=v*2", v, w5, 0); }
    { SU_vector v = va; v -= -v; cmp("v-=-v", v, w6, 0); }
    { SU_vector v = va; SU_vector view((unsigned)d, &v[0]); v += view + vb; cmp("v+=view_of_v+w", v, w1, 0); }
  }
  if (!(va == va) || !(vb == vb)) violation(dsig("operator==:not-reflexive", d), J().i("d", d).arr("a", a).done());
  bool same = true; for (int k = 0; k < n; k++) if (a[k] != b[k]) same = false;
  if ((va == vb) != same) violation(dsig("operator==:wrong", d), J().i("d", d).arr("a", a).arr("b", b).done());
  for (double s : SCAL) {
    for (int k = 0; k < n; k++) w[k] = a[k] * s;
    { SU_vector r = va * s; cmp("operator*(scalar)", r, w, 0); SU_vector r2 = s * va; cmp("scalar*vector", r2, w, 0); SU_vector r3 = va; r3 *= s; cmp("operator*=", r3, w, 0); }
    if (s != 0) { for (int k = 0; k < n; k++) w[k] = a[k] / s; SU_vector r = va; r /= s; cmp("operator/=", r, w, 2); }
  }
  // the scalar may be one of the vector's own components (it is passed by value): v *= v[k], v /= v[k]
  for (int k : {0, 1, n / 2, n - 1}) {
    double s = a[k];
    if (s == 0 || !std::isfinite(s)) continue;
    for (int q = 0; q < n; q++) w[q] = a[q] * s;
    { SU_vector r = va; r *= r[k]; cmp("operator*=(own-component)", r, w, 0); }
    for (int q = 0; q < n; q++) w[q] = a[q] / s;
    { SU_vector r = va; r /= r[k]; cmp("operator/=(own-component)", r, w, 2); }
    { SU_vector r = va; SU_vector p = r * r[k]; for (int q = 0; q < n; q++) w[q] = a[q] * s; cmp("operator*(own-component)", p, w, 0); }
  }
  if (with_matrix) {
    // the library's own matrix map is additive and homogeneous
    Mat Ma = gsl2mat(va.GetGSLMatrix().get()), Mb = gsl2mat(vb.GetGSLMatrix().get());
    double tol = 16 * d * ref::EPS * (maxabs(a) + maxabs(b)) + 64 * d * 4.9406564584124654e-324;
    SU_vector s = va + vb, df = va - vb, sc = va * (-3.25);
    double e1 = ref::maxabs(gsl2mat(s.GetGSLMatrix().get()) - (Ma + Mb)), e2 = ref::maxabs(gsl2mat(df.GetGSLMatrix().get()) - (Ma - Mb)), e3 = ref::maxabs(gsl2mat(sc.GetGSLMatrix().get()) - cd(-3.25, 0) * Ma);
    if (!(e1 <= tol && e2 <= tol && e3 <= tol)) violation(dsig("matrix-map:not-linear", d), J().i("d", d).arr("a", a).arr("b", b).num("e_add", e1).num("e_sub", e2).num("e_scal", e3).done());
  }
}

// Nested expressions: each sub-expression is rounded on its own (a temporary vector holds it), so (v*a)*b is
// ((v_k*a)*b)_k -- not v_k*(a*b) -- including when a*b over- or underflows but the component-wise result does not.
static void check_nested(int d, const std::vector<double>& a, const std::vector<double>& b, double s, double t, long long idx) {
  int n = d * d;
  count("evaluations"); count("nested_expression_cases");
  { uint64_t h = hashvec(a, d); h = hashvec(b, h); h = ref::fnv(&s, sizeof s, h); h = ref::fnv(&t, sizeof t, h); if (maxabs(a) > 0) distinct(h ^ 0x51ed); }
  sample_every(idx, 5003, J().str("kind", "nested (v*s)*t, (s*v)*t, -(v*s), (v*s)+(w*t), (v+w)*s, v*=s;v*=t").i("d", d).num("s", s).num("t", t).arr("a", a).arr("b", b).done());
  SU_vector va = mkvec(d, a), vb = mkvec(d, b);
  auto cmp = [&](const char* op, const SU_vector& r, const std::vector<double>& want) {
    bool ok = (int)r.Dim() == d;
    for (int k = 0; ok && k < n; k++) if (!(ref::close_ulp(r[k], want[k], 0) || (std::isnan(r[k]) && std::isnan(want[k])))) ok = false;
    if (!ok) violation(dsig((std::string(op) + ":componentwise").c_str(), d), J().i("d", d).num("s", s).num("t", t).arr("a", a).arr("b", b).arr("got", comps(r)).arr("want", want).done());
  };
  std::vector<double> w(n);
  volatile double vs = s, vt = t;   // keeps the compiler from folding s*t in the expected values
  for (int k = 0; k < n; k++) { double x = a[k] * vs; w[k] = x * vt; }
  { SU_vector r = (va * s) * t; cmp("(v*s)*t", r, w); SU_vector r2 = (s * va) * t; cmp("(s*v)*t", r2, w); SU_vector r3 = va; r3 *= s; r3 *= t; cmp("v*=s;v*=t", r3, w);
    SU_vector r4(d); r4 = (va * s) * t; cmp("r=(v*s)*t", r4, w); SU_vector r5 = mkvec(d, std::vector<double>(n, 0.0)); r5 += (va * s) * t; cmp("r+=(v*s)*t", r5, w); }
  for (int k = 0; k < n; k++) { double x = a[k] * vs; w[k] = -x; }
  { SU_vector r = -(va * s); cmp("-(v*s)", r, w); }
  for (int k = 0; k < n; k++) { double x = a[k] * vs, y = b[k] * vt; w[k] = x + y; }
  { SU_vector r = (va * s) + (vb * t); cmp("(v*s)+(w*t)", r, w); }
  for (int k = 0; k < n; k++) { double x = a[k] * vs, y = b[k] * vt; w[k] = x - y; }
  { SU_vector r = (va * s) - (vb * t); cmp("(v*s)-(w*t)", r, w); }
  for (int k = 0; k < n; k++) { double x = a[k] + b[k]; w[k] = x * vs; }
  { SU_vector r = (va + vb) * s; cmp("(v+w)*s", r, w); }
  for (int k = 0; k < n; k++) { double x = a[k] - b[k]; w[k] = x * vs; }
  { SU_vector r = (va - vb) * s; cmp("(v-w)*s", r, w); }
  for (int k = 0; k < n; k++) { double x = a[k] + b[k]; w[k] = -x; }
  { SU_vector r = -(va + vb); cmp("-(v+w)", r, w); }
  for (int k = 0; k < n; k++) { double x = -a[k]; w[k] = -x; }
  { SU_vector r = -(-va); cmp("-(-v)", r, w); }
  if (s != 0 && t != 0) { for (int k = 0; k < n; k++) { double x = a[k] / vs; w[k] = x / vt; } SU_vector r = va; r /= s; r /= t; bool ok = true; for (int k = 0; k < n; k++) if (!(ref::close_ulp(r[k], w[k], 4, 4 * 4.9406564584124654e-324) || (std::isnan(r[k]) && std::isnan(w[k])))) ok = false;
    if (!ok) violation(dsig("v/=s;v/=t:componentwise", d), J().i("d", d).num("s", s).num("t", t).arr("a", a).arr("got", comps(r)).arr("want", w).done()); }
}

int main(int argc, char** argv) {
  Args ar = parse(argc, argv); quiet_gsl();
  bool th = ar.thorough();
  long long idx = 0;
  std::vector<std::vector<std::vector<double>>> alph(7);
  for (int d = 2; d <= 6; d++) {
    const ref::Basis& B = ref::basis(d);
    // (0) basis binding: the library's map on unit vectors is the documented GGM basis
    for (int k = 0; k < d * d; k++) {
      count("evaluations");
      SU_vector v = mkvec(d, unit(d, k));
      Mat M = gsl2mat(v.GetGSLMatrix().get());
      if (!(ref::maxabs(M - B.lam[k]) <= 4 * ref::EPS)) violation(dsig("basis-binding:generator-matrix", d), J().i("d", d).i("slot", k).done());
      for (int l = 0; l < d * d; l++) {  // Tr(lam_a lam_b) = 2 delta_ab (d for the identity) via the library's trace
        SU_vector u = mkvec(d, unit(d, l));
        double tr = v * u, want = (k == l) ? (k == 0 ? d : 2.0) : 0.0;
        if (!(std::fabs(tr - want) <= 8 * ref::EPS)) violation(dsig("basis-binding:normalisation", d), J().i("d", d).i("a", k).i("b", l).num("trace", tr).done());
      }
    }
    alph[d] = vec_alphabet(d, th, ar.reduced);
    for (auto& c : alph[d]) check_conversions(d, c, idx++);
    // Hermitian matrix alphabet
    for (int i = 0; i < d; i++) { check_matrix_input(d, ref::E(d, i, i), "E_jj", idx++); }
    for (int i = 0; i < d; i++) for (int j = i + 1; j < d; j++) {
      check_matrix_input(d, ref::E(d, i, j) + ref::E(d, j, i), "E_jk+E_kj", idx++);
      check_matrix_input(d, cd(0, 1) * (ref::E(d, i, j) - ref::E(d, j, i)), "i(E_jk-E_kj)", idx++);
      Mat m(d); m(i, j) = cd(0.3, -1.7); m(j, i) = cd(0.3, 1.7); m(i, i) = 2; m(j, j) = -0.5; check_matrix_input(d, m, "2x2 block", idx++);
    }
    for (int w = 0; w < 3; w++) { Mat m(d); for (int i = 0; i < d; i++) for (int j = 0; j < d; j++) { cd z(std::cos(1.3 * i + 0.7 * j + w), std::sin(0.4 * i - 1.1 * j + w)); m(i, j) += z; m(j, i) += std::conj(z); } check_matrix_input(d, m, "dense hermitian", idx++); check_matrix_input(d, cd(1e150, 0) * m, "dense hermitian*1e150", idx++); check_matrix_input(d, cd(1e-150, 0) * m, "dense hermitian*1e-150", idx++); }
    // binary operations on all ordered pairs of a 40-vector subset
    std::vector<std::vector<double>> sub;
    { auto& A = alph[d]; size_t stride = std::max<size_t>(1, A.size() / (ar.reduced ? 12 : 34)); for (size_t i = 0; i < A.size(); i += stride) sub.push_back(A[i]); for (int w = 0; w < 3; w++) { sub.push_back(probe(d, w)); sub.push_back(scaled(probe(d, w), th ? 1e300 : 1e150)); } }
    count("pair_subset_size", (long long)sub.size());
    for (size_t i = 0; i < sub.size(); i++) for (size_t j = 0; j < sub.size(); j++) check_ops(d, sub[i], sub[j], idx++, maxabs(sub[i]) < 1e200 && maxabs(sub[j]) < 1e200);
  }
  // nested expressions over all ordered pairs of a scalar alphabet that includes magnitudes whose product leaves the double range
  {
    const double NS[] = {1e200, 1e-200, -3.25, 0.5, 1e300, 1e-300, 0.0, -0.0, 3e-320, -1e155, 7e-160};
    for (int d = 2; d <= 6; d++) {
      std::vector<std::vector<double>> V = {probe(d, 0), scaled(probe(d, 1), 1e-250), scaled(probe(d, 2), 1e250), unit(d, d + 1, -2.0)};
      if (ar.reduced && d > 3) continue;
      for (size_t i = 0; i < V.size(); i++) for (double s : NS) for (double t : NS) check_nested(d, V[i], V[(i + 1) % V.size()], s, t, idx++);
    }
  }
  // division by subnormal scalars (powers of two and others): the quotient is an ordinary number when the components are tiny too
  for (int d = 2; d <= 6; d++) for (double x : {std::ldexp(1.0, -1074), std::ldexp(1.0, -1050), -std::ldexp(1.0, -1030), 3e-320, -7.3e-310, std::ldexp(1.0, -1023), std::ldexp(1.0, 1023)}) for (double vs : {1e-318, 3e-312, 1.0}) {
    std::vector<double> c = scaled(probe(d, 1), vs / maxabs(probe(d, 1))); bool rep = true; for (double v : c) if (!std::isfinite(v / x)) rep = false; if (!rep) continue;
    count("evaluations"); distinct(ref::fnv(&x, 8, d * 7) ^ ref::fnv(&vs, 8, 3));
    SU_vector v = mkvec(d, c); std::vector<double> cc = comps(v); v /= x; bool ok = true;
    for (int k = 0; k < d * d; k++) { double want = cc[k] / x; if (!(ref::close_ulp(v[k], want, 2, 4 * 4.9406564584124654e-324))) ok = false; }
    if (!ok) violation(dsig("operator/=:subnormal-divisor", d), J().i("d", d).num("divisor", x).arr("components", cc).arr("got", comps(v)).done());
  }
  // == across all dimension pairs (and with empty vectors)
  for (int d1 = 2; d1 <= 6; d1++) for (int d2 = 2; d2 <= 6; d2++) {
    std::vector<std::vector<double>> s1 = {std::vector<double>(d1 * d1, 0.0), unit(d1, 0), unit(d1, 1), probe(d1, 0)}, s2 = {std::vector<double>(d2 * d2, 0.0), unit(d2, 0), unit(d2, 1), probe(d2, 0)};
    for (auto& a : s1) for (auto& b : s2) {
      count("evaluations"); distinct(hashvec(a, d1 * 100 + d2) ^ hashvec(b, 5));
      SU_vector va = mkvec(d1, a), vb = mkvec(d2, b);
      bool want = d1 == d2 && a == b;
      if ((va == vb) != want) violation("operator==:cross-dimension", J().i("d1", d1).i("d2", d2).arr("a", a).arr("b", b).done());
    }
  }
  check_early({1});
  // == between vectors that start at the same address (views of one user buffer, a view laid over an owned vector): equal iff
  // same dimension and equal components, whatever they share
  for (int d1 = 2; d1 <= 6; d1++) for (int d2 = 2; d2 <= 6; d2++) {
    count("evaluations");
    std::vector<double> buf(36); for (int k = 0; k < 36; k++) buf[k] = 0.5 + 0.01 * k;
    SU_vector a(d1, buf.data()), b(d2, buf.data());
    SU_vector own = mkvec(std::max(d1, d2), probe(std::max(d1, d2), 0)); SU_vector head(std::min(d1, d2), &own[0]);
    bool want = d1 == d2;
    if ((a == b) != want || (b == a) != want) violation("operator==:views-of-one-buffer", J().i("d1", d1).i("d2", d2).done());
    if ((own == head) != want || (head == own) != want) violation("operator==:view-over-owned-storage", J().i("d1", d1).i("d2", d2).done());
  }
  finish();
  return 0;
}
