// C05: expectation values (Schroedinger-picture traces) and linear x-interpolation, all 7 overloads.
#include "bind.hpp"
#include <SQuIDS/SQuIDS.h>
#include <thread>
using namespace vf;

static long long g_idx = 0;

static std::vector<double> levels(int d) { std::vector<double> e(d); for (int i = 0; i < d; i++) e[i] = 0.8 * i - 0.35 * i * i + 0.1; return e; }

struct Sol : squids::SQuIDS {
  int d; double h0scale = 1.0;
  Sol(unsigned nx, unsigned dim, unsigned nrho, double ti) : squids::SQuIDS(nx, dim, nrho, 1, ti), d(dim) { Set_rel_error(1e-10); Set_abs_error(1e-10); Set_h(1e-3); }
  std::vector<double> h0spec(double x, unsigned irho) const { std::vector<double> e = levels(d); for (auto& v : e) v *= h0scale * x * (1 + irho); return e; }
  squids::SU_vector H0(double x, unsigned irho) const override { return mkvec(d, ref::basis(d).proj(ref::diag(h0spec(x, irho)))); }
  squids::SU_vector HI(unsigned ix, unsigned irho, double t) const override { std::vector<double> e(d); for (int i = 0; i < d; i++) e[i] = 0.3 * i + 0.1 * ix - 0.2 * irho; return mkvec(d, ref::basis(d).proj(ref::diag(e))); }
  void setrho(unsigned ix, unsigned irho, const std::vector<double>& c) { for (int k = 0; k < d * d; k++) state[ix].rho[irho][k] = c[k]; }
  std::vector<double> getrho(unsigned ix, unsigned irho) const { return comps(state[ix].rho[irho]); }
};

// Tr(rho_S O) with rho_S = exp(-i H0 tau) rho exp(i H0 tau), H0 diagonal with spectrum E
static double ref_expect(int d, const std::vector<double>& rho, const std::vector<double>& op, const std::vector<double>& E, double tau) {
  const ref::Basis& B = ref::basis(d);
  Mat R = B.tomat(rho), O = B.tomat(op), RS(d);
  for (int j = 0; j < d; j++) for (int k = 0; k < d; k++) { double ph = -(E[j] - E[k]) * tau; RS(j, k) = R(j, k) * cd(std::cos(ph), std::sin(ph)); }
  return ref::trace(RS * O).real();
}

struct TimeCfg { double tini, tau; bool numerics; };

// a node grid and the history through which the solver object comes to hold it
struct GridSpec { std::string name; int kind; double a, b; std::vector<double> nodes; };   // kind 0 linear, 1 log, 2 user-supplied
enum GridHistory { GH_VECTOR, GH_NATURAL, GH_AFTER_LIN, GH_AFTER_LOG, GH_AFTER_USER, GH_MOVED_IN, GH_REINI_FEWER, N_GH };
static const char* GHNAME[] = {"fresh object, Set_xrange(vector)", "fresh object, Set_xrange(a,b,type)", "after Set_xrange(lin) and queries", "after Set_xrange(log) and queries", "after Set_xrange(vector) and queries", "move-assigned from another object over a used one", "re-initialised with fewer nodes after a wider, longer grid"};
static void set_grid(Sol& s, const GridSpec& g, bool natural) { if (g.kind == 2 || !natural) s.Set_xrange(g.nodes); else s.Set_xrange(g.a, g.b, g.kind ? "log" : "lin"); }
static void warm(Sol& s, int d) {   // x-indexed queries on whatever grid the object holds now
  std::vector<double> x = s.Get_xrange(); squids::SQuIDS::expectationValueDBuffer b(d); SU_vector O = mkvec(d, probe(d, 2));
  for (size_t i = 0; i + 1 < x.size(); i++) { double xm = 0.5 * (x[i] + x[i + 1]); volatile double v = s.GetExpectationValueD(O, 0, xm) + s.GetExpectationValueD(O, 0, xm, b) + s.GetIntermediateState(0, xm)[0]; (void)v; (void)s.Get_i(xm); }
}

static void run_grid(int d, const GridSpec& gs, int hist, const TimeCfg& tc, bool reduced) {
  unsigned nx = (unsigned)gs.nodes.size(), nrho = 2;
  Sol s(hist == GH_REINI_FEWER ? nx + 4 : nx, d, nrho, tc.tini);
  switch (hist) {
    case GH_REINI_FEWER: { double lo = gs.nodes.front(), hi = gs.nodes.back(), sp = hi - lo; if (gs.kind == 1) s.Set_xrange(lo * 0.5, hi * 50, "log"); else s.Set_xrange(lo - 2 * sp, hi + 3 * sp, "lin"); warm(s, d);
      s.ini(nx, d, nrho, 1, tc.tini); s.Set_rel_error(1e-10); s.Set_abs_error(1e-10); s.Set_h(1e-3); set_grid(s, gs, true); } break;
    case GH_VECTOR: set_grid(s, gs, false); break;
    case GH_NATURAL: set_grid(s, gs, true); break;
    case GH_AFTER_LIN: s.Set_xrange(-1.5, 6.0, "lin"); warm(s, d); set_grid(s, gs, true); break;
    case GH_AFTER_LOG: s.Set_xrange(0.02, 50.0, "log"); warm(s, d); set_grid(s, gs, true); break;
    case GH_AFTER_USER: { std::vector<double> u(nx); for (unsigned i = 0; i < nx; i++) u[i] = -4.0 + 0.3 * i * i; s.Set_xrange(u); warm(s, d); set_grid(s, gs, gs.kind != 0); } break;
    case GH_MOVED_IN: { s.Set_xrange(-1.5, 6.0, "lin"); warm(s, d); Sol other(nx, d, nrho, tc.tini); set_grid(other, gs, true); s = std::move(other); } break;
  }
  std::vector<double> grid = s.Get_xrange();
  std::string gname = gs.name + " [" + GHNAME[hist] + "]";
  { bool same = grid.size() == nx; for (unsigned i = 0; same && i < nx; i++) if (!(std::fabs(grid[i] - gs.nodes[i]) <= 1e-12 * (1 + std::fabs(gs.nodes[i])))) same = false;
    count("evaluations"); if (!same) { violation("Set_xrange:grid-history:nodes-differ", "{\"grid\":" + jstr(gname) + ",\"got\":" + jarr(grid) + ",\"want\":" + jarr(gs.nodes) + "}"); return; } }
  for (unsigned ix = 0; ix < nx; ix++) for (unsigned ir = 0; ir < nrho; ir++) { std::vector<double> c = probe(d, (ix * 2 + ir) % 3); for (int k = 0; k < d * d; k++) c[k] += 0.21 * ix - 0.13 * ir * (k % 4); s.setrho(ix, ir, c); }
  if (tc.numerics) s.Set_CoherentRhoTerms(true);
  if (tc.tau != 0 || tc.numerics) s.Evolve(tc.tau);
  double tau = s.Get_t() - s.Get_t_initial();
  std::string tctx = J().num("t_ini", tc.tini).num("elapsed", tc.tau).i("numerics", tc.numerics).done();
  std::string gctx = "{\"d\":" + std::to_string(d) + ",\"grid\":" + jstr(gname) + ",\"nodes\":" + jarr(grid) + ",\"time\":" + tctx + "}";
  if (!(std::fabs(tau - tc.tau) <= 8 * ref::EPS * (std::fabs(tc.tini) + std::fabs(tc.tau)))) violation("Evolve:elapsed-time-bookkeeping", gctx);
  // stored states as they are now (the oracle starts from the stored interaction-picture state)
  std::vector<std::vector<std::vector<double>>> rho(nx, std::vector<std::vector<double>>(nrho));
  for (unsigned ix = 0; ix < nx; ix++) for (unsigned ir = 0; ir < nrho; ir++) rho[ix][ir] = s.getrho(ix, ir);
  std::vector<std::vector<double>> ops;
  if (!reduced) for (int k = 0; k < d * d; k++) ops.push_back(unit(d, k)); else { ops.push_back(unit(d, 1)); ops.push_back(unit(d, d)); }
  ops.push_back(probe(d, 2));
  double Emax = 0; for (double e : levels(d)) Emax = std::max(Emax, std::fabs(e));
  int np = d * (d - 1) / 2;
  // ---- node-indexed overloads ----
  for (unsigned ix = 0; ix < nx; ix++) for (unsigned ir = 0; ir < nrho; ir++) for (auto& op : ops) {
    count("evaluations"); { uint64_t h = hashvec(grid, d); h = hashvec(op, h); h = ref::fnv(&tc, sizeof tc, h); distinct(h ^ (ix * 31 + ir)); }
    sample_every(g_idx++, 30011, "{\"entry\":\"GetExpectationValue(op,irho,ix)\",\"case\":" + gctx + ",\"ix\":" + std::to_string(ix) + ",\"irho\":" + std::to_string(ir) + ",\"op\":" + jarr(op) + "}");
    double want = ref_expect(d, rho[ix][ir], op, s.h0spec(grid[ix], ir), tau);
    double scale = maxabs(rho[ix][ir]) * maxabs(op), tol = (64 + 16 * std::fabs(tau) * Emax * std::fabs(grid[ix]) * 2 * d) * d * d * ref::EPS * scale;
    std::string ctx = "{\"case\":" + gctx + ",\"ix\":" + std::to_string(ix) + ",\"irho\":" + std::to_string(ir) + ",\"op\":" + jarr(op) + ",\"want\":" + jnum(want);
    double g1 = s.GetExpectationValue(mkvec(d, op), ir, ix);
    maxstat("node_err/tol", std::fabs(g1 - want) / tol);
    if (!(std::fabs(g1 - want) <= tol)) violation("GetExpectationValue(op,irho,ix):not-schroedinger-trace:d=" + std::to_string(d), ctx + ",\"got\":" + jnum(g1) + "}");
    { // the operator passed as a temporary that views the caller's own array, and as a moved-from view: the array is read only
      std::vector<double> arr = op, arr2 = op; std::vector<bool> av(np, true);
      double h1 = s.GetExpectationValue(SU_vector((unsigned)d, arr.data()), ir, ix), h2 = s.GetExpectationValue(SU_vector((unsigned)d, arr.data()), ir, ix, 1e300, av);
      SU_vector view((unsigned)d, arr2.data()); double h3 = s.GetExpectationValue(std::move(view), ir, ix);
      double h4 = s.GetExpectationValueD(SU_vector((unsigned)d, arr.data()), ir, grid[ix]);
      count("evaluations");
      if (!(arr == op) || !(arr2 == op) || !(std::fabs(h1 - want) <= tol) || !(std::fabs(h2 - want) <= tol) || !(std::fabs(h3 - want) <= tol) || !(std::fabs(h4 - want) <= tol))
        violation("GetExpectationValue:operator-given-as-view-of-caller-array:d=" + std::to_string(d), ctx + ",\"array_unchanged\":" + ((arr == op && arr2 == op) ? "true" : "false") + ",\"got\":" + jarr(std::vector<double>{h1, h2, h3, h4}) + "}");
    }
    std::vector<bool> avr(np, true);
    double g2 = s.GetExpectationValue(mkvec(d, op), ir, ix, 1e300, avr);
    bool anyavr = false; for (bool b : avr) anyavr = anyavr || b;
    if (!(std::fabs(g2 - want) <= tol) || anyavr) violation("GetExpectationValue(op,irho,ix,scale,avr):unreachable-scale-differs:d=" + std::to_string(d), ctx + ",\"got\":" + jnum(g2) + "}");
    // reachable scale: consistent with the library's own averaged table for this node's H0 and elapsed time
    for (double sc : {0.37, 3.3}) {
      std::vector<bool> a1(np, false), a2(np, false); std::vector<double> buf(2 * np);
      SU_vector h0 = s.H0(grid[ix], ir); h0.PrepareEvolve(buf.data(), tau, sc, a2);
      double wantavg = mkvec(d, rho[ix][ir]) * SU_vector(mkvec(d, op).Evolve(buf.data()));
      double g3 = s.GetExpectationValue(mkvec(d, op), ir, ix, sc, a1);
      if (!(std::fabs(g3 - wantavg) <= tol) || a1 != a2) violation("GetExpectationValue(op,irho,ix,scale,avr):inconsistent-with-averaged-table:d=" + std::to_string(d), ctx + ",\"scale\":" + jnum(sc) + ",\"got\":" + jnum(g3) + ",\"table\":" + jnum(wantavg) + "}");
    }
  }
  // ---- x-indexed overloads ----
  std::vector<double> xs; double span = grid[nx - 1] - grid[0];
  for (unsigned i = 0; i < nx; i++) { xs.push_back(grid[i]); if (i + 1 < nx) { xs.push_back(0.5 * (grid[i] + grid[i + 1])); xs.push_back(grid[i] + 0.25 * (grid[i + 1] - grid[i])); xs.push_back(grid[i] + 0.9 * (grid[i + 1] - grid[i])); } }
  xs.push_back(std::nextafter(grid[0], INFINITY)); xs.push_back(std::nextafter(grid[nx - 1], -INFINITY));
  std::vector<double> outside = {std::nextafter(grid[0], -INFINITY), std::nextafter(grid[nx - 1], INFINITY), grid[0] - 0.3 * span, grid[nx - 1] + 0.3 * span, grid[0] - 1e3 * (1 + std::fabs(grid[0])), grid[nx - 1] + 1e3 * (1 + std::fabs(grid[nx - 1]))};
  squids::SQuIDS::expectationValueDBuffer ubuf(d);
  std::vector<std::vector<double>> xops = {ops[0], ops.back()}; if (!reduced && ops.size() > 3) { xops.push_back(ops[1]); xops.push_back(ops[d]); }
  for (unsigned ir = 0; ir < nrho; ir++) {
    for (double x : xs) {
      unsigned i = 0; while (i + 2 < nx && grid[i + 1] <= x) i++;   // reference bracket: linear scan
      double f2 = (x - grid[i]) / (grid[i + 1] - grid[i]), f1 = 1 - f2;
      std::vector<double> rx(d * d); for (int k = 0; k < d * d; k++) rx[k] = f1 * rho[i][ir][k] + f2 * rho[i + 1][ir][k];
      std::string xctx = "{\"case\":" + gctx + ",\"x\":" + jnum(x) + ",\"irho\":" + std::to_string(ir);
      count("evaluations"); { uint64_t h = hashvec(grid, d); h = ref::fnv(&x, 8, h); h = ref::fnv(&tc, sizeof tc, h); distinct(h ^ (77 + ir)); }
      try {
        SU_vector is = s.GetIntermediateState(ir, x);
        double e = maxdiff(comps(is), rx);
        if (!(e <= 16 * ref::EPS * (maxabs(rho[i][ir]) + maxabs(rho[i + 1][ir])))) violation("GetIntermediateState:not-convex-combination:d=" + std::to_string(d), xctx + ",\"got\":" + jarr(comps(is)) + ",\"want\":" + jarr(rx) + "}");
        // the returned state is an object of its own: using it in place does not show in the solver or in the next call
        is *= -2.5; is[0] = 99; { SU_vector consumed = s.GetIntermediateState(ir, x) * 0.5; (void)consumed; }
        { SU_vector held = s.GetIntermediateState(ir, x); SU_vector other = s.GetIntermediateState(ir, xs[(&x - &xs[0] + 3) % xs.size()]); SU_vector third = s.GetIntermediateState((ir + 1) % nrho, x);
          if (!(maxdiff(comps(held), rx) <= 16 * ref::EPS * (maxabs(rho[i][ir]) + maxabs(rho[i + 1][ir])))) violation("GetIntermediateState:earlier-result-changed-by-a-later-call:d=" + std::to_string(d), xctx + "}"); (void)other; (void)third; }
        SU_vector is2 = s.GetIntermediateState(ir, x);
        if (!(maxdiff(comps(is2), rx) <= 16 * ref::EPS * (maxabs(rho[i][ir]) + maxabs(rho[i + 1][ir]))) || !(s.getrho(i, ir) == rho[i][ir]) || !(s.getrho(i + 1, ir) == rho[i + 1][ir])) violation("GetIntermediateState:result-shares-state:d=" + std::to_string(d), xctx + "}");
      } catch (const std::exception& ex) { violation("GetIntermediateState:inside-rejected", xctx + "}"); }
      for (auto& op : xops) {
        count("evaluations");
        sample_every(g_idx++, 30011, "{\"entry\":\"GetExpectationValueD\",\"case\":" + gctx + ",\"x\":" + jnum(x) + ",\"irho\":" + std::to_string(ir) + ",\"op\":" + jarr(op) + "}");
        double want = ref_expect(d, rx, op, s.h0spec(x, ir), tau);
        double scale = (maxabs(rho[i][ir]) + maxabs(rho[i + 1][ir])) * maxabs(op), tol = (64 + 16 * std::fabs(tau) * Emax * std::fabs(x) * 2 * d) * d * d * ref::EPS * scale;
        std::string ctx = xctx + ",\"op\":" + jarr(op) + ",\"want\":" + jnum(want);
        std::vector<bool> avr(np, true), avr2(np, true);
        double g[4]; const char* nm[4] = {"GetExpectationValueD(op,irho,x)", "GetExpectationValueD(op,irho,x,buf)", "GetExpectationValueD(op,irho,x,scale,avr)", "GetExpectationValueD(op,irho,x,buf,scale,avr)"};
        try {
          SU_vector O = mkvec(d, op);
          g[0] = s.GetExpectationValueD(O, ir, x); g[1] = s.GetExpectationValueD(O, ir, x, ubuf);
          g[2] = s.GetExpectationValueD(O, ir, x, 1e300, avr); g[3] = s.GetExpectationValueD(O, ir, x, ubuf, 1e300, avr2);
          for (int q = 0; q < 4; q++) { maxstat("x_err/tol", std::fabs(g[q] - want) / tol); if (!(std::fabs(g[q] - want) <= tol)) violation(std::string(nm[q]) + ":not-interpolated-trace:d=" + std::to_string(d), ctx + ",\"got\":" + jnum(g[q]) + "}"); }
          // agreement with the node-indexed form at nodes
          for (unsigned n = 0; n < nx; n++) if (x == grid[n]) { double gn = s.GetExpectationValue(O, ir, n); if (!(std::fabs(g[0] - gn) <= tol)) violation("GetExpectationValueD:disagrees-with-node-form-at-node:d=" + std::to_string(d), ctx + ",\"node_form\":" + jnum(gn) + ",\"x_form\":" + jnum(g[0]) + "}"); }
        } catch (const std::exception& ex) { violation("GetExpectationValueD:inside-rejected", ctx + ",\"what\":" + jstr(ex.what()) + "}"); }
      }
    }
    // outside the node range: must throw, on both sides, in every x-indexed overload
    for (double x : outside) {
      SU_vector O = mkvec(d, ops.back()); std::vector<bool> avr(np, false);
      const char* side = x < grid[0] ? "below" : "above";
      for (int q = 0; q < 5; q++) {
        count("evaluations"); { uint64_t h = hashvec(grid, d); h = ref::fnv(&x, 8, h); distinct(h ^ (1000 + q * 3 + ir)); }
        bool threw = false; double val = 0;
        try {
          if (q == 0) val = s.GetIntermediateState(ir, x)[0]; else if (q == 1) val = s.GetExpectationValueD(O, ir, x); else if (q == 2) val = s.GetExpectationValueD(O, ir, x, ubuf);
          else if (q == 3) val = s.GetExpectationValueD(O, ir, x, 1e300, avr); else val = s.GetExpectationValueD(O, ir, x, ubuf, 1e300, avr);
        } catch (const std::exception&) { threw = true; }
        const char* nm[5] = {"GetIntermediateState", "GetExpectationValueD(op,irho,x)", "GetExpectationValueD(op,irho,x,buf)", "GetExpectationValueD(op,irho,x,scale,avr)", "GetExpectationValueD(op,irho,x,buf,scale,avr)"};
        if (!threw) violation(std::string(nm[q]) + ":x-" + side + "-grid-answered", "{\"case\":" + gctx + ",\"x\":" + jnum(x) + ",\"irho\":" + std::to_string(ir) + ",\"returned\":" + jnum(val) + "}");
      }
    }
  }
}

// unnormalised states whose magnitude changes by many orders from node to node (a steeply falling spectrum): exactly at a node the
// x-indexed forms must agree with the node-indexed form to the rounding of THAT node's state, whatever its neighbours hold
static void steep_nodes() {
  for (int d : {2, 3, 5}) for (int pat = 0; pat < 3; pat++) {
    std::vector<double> grid = {0.5, 1.25, 2.0, 3.5, 6.0};
    const double MAG[3][5] = {{1e12, 1, 1e-9, 1e3, 1e-14}, {1, 1e-17, 1e17, 1, 1e-3}, {1e-200, 1e-180, 1e-195, 1e-150, 1e-170}};
    Sol s(5, d, 1, 0.25); s.Set_xrange(grid);
    for (unsigned ix = 0; ix < 5; ix++) s.setrho(ix, 0, scaled(probe(d, ix % 3), MAG[pat][ix]));
    s.Evolve(0.75);
    squids::SQuIDS::expectationValueDBuffer ubuf(d); int np = d * (d - 1) / 2;
    for (unsigned ix = 0; ix < 5; ix++) for (int w = 0; w < 2; w++) {
      count("evaluations"); count("steep_node_queries");
      std::vector<double> opc = w ? probe(d, 2) : unit(d, 1); SU_vector O = mkvec(d, opc);
      double node = s.GetExpectationValue(O, 0, ix); std::vector<bool> avr(np, true), avr2(np, true);
      double g[4] = {s.GetExpectationValueD(O, 0, grid[ix]), s.GetExpectationValueD(O, 0, grid[ix], ubuf), s.GetExpectationValueD(O, 0, grid[ix], 1e300, avr), s.GetExpectationValueD(O, 0, grid[ix], ubuf, 1e300, avr2)};
      double tol = 1e-11 * d * d * maxabs(s.getrho(ix, 0)) * maxabs(opc);
      SU_vector is = s.GetIntermediateState(0, grid[ix]); double es = maxdiff(comps(is), s.getrho(ix, 0));
      for (int q = 0; q < 4; q++) if (!(std::fabs(g[q] - node) <= tol)) { violation("GetExpectationValueD:disagrees-with-node-form-at-node:steep-magnitudes:d=" + std::to_string(d), J().i("d", d).i("pattern", pat).i("node", ix).i("overload", q).num("x_form", g[q]).num("node_form", node).num("tol", tol).done()); break; }
      if (!(es <= 1e-14 * maxabs(s.getrho(ix, 0)))) violation("GetIntermediateState:not-the-node-state-at-a-node:steep-magnitudes:d=" + std::to_string(d), J().i("d", d).i("pattern", pat).i("node", ix).num("err", es).done());
    }
  }
}

// H0 with a common energy far above its level splittings and an elapsed time long enough for the splittings to matter
// (the common energy drops out of every expectation value, the splittings do not): all seven overloads against the reference
static void near_identity_h0() {
  struct S2 : Sol { double c0, sp; S2(unsigned nx, unsigned dim, double c0_, double sp_) : Sol(nx, dim, 1, 0.0), c0(c0_), sp(sp_) {}
    std::vector<double> spec(double x) const { std::vector<double> e = levels(d); for (auto& v : e) v = c0 + sp * v * x; return e; }
    squids::SU_vector H0(double x, unsigned) const override { return mkvec(d, ref::basis(d).proj(ref::diag(spec(x)))); } };
  const double CFG[][3] = {{1.0, 1e-9, 2e9}, {1e9, 1e-3, 4e3}, {-5.0, 1e-12, 7e11}, {1e3, 1.0, 2.0}};   // common energy, splitting scale, elapsed time
  for (int d = 2; d <= 6; d++) for (auto& cf : CFG) {
    std::vector<double> grid = {0.5, 1.5, 4.0};
    S2 s(3, d, cf[0], cf[1]); s.Set_xrange(grid);
    for (unsigned ix = 0; ix < 3; ix++) s.setrho(ix, 0, scaled(probe(d, ix), 1 + 0.2 * ix));
    s.Evolve(cf[2]);
    double tau = s.Get_t() - s.Get_t_initial(); int np = d * (d - 1) / 2;
    squids::SQuIDS::expectationValueDBuffer ubuf(d);
    for (unsigned ix = 0; ix < 3; ix++) for (int w = 0; w < 2; w++) {
      count("evaluations"); count("near_identity_h0_queries");
      std::vector<double> opc = w ? probe(d, 2) : unit(d, 1); SU_vector O = mkvec(d, opc);
      // only the splittings enter: reference with the common energy removed (exactly what the physics says)
      std::vector<double> e = levels(d); for (auto& v : e) v *= cf[1] * grid[ix];
      double want = ref_expect(d, s.getrho(ix, 0), opc, e, tau);
      double tol = (64 + 16 * std::fabs(tau) * (std::fabs(cf[0]) * 4 * ref::EPS + cf[1] * 4 * grid[ix]) * 2 * d) * d * d * ref::EPS * maxabs(s.getrho(ix, 0)) * maxabs(opc) + 16 * std::fabs(tau) * std::fabs(cf[0]) * ref::EPS * d * d * maxabs(s.getrho(ix, 0)) * maxabs(opc);
      std::vector<bool> a1(np, true), a2(np, true), a3(np, true);
      double g[7] = {s.GetExpectationValue(O, 0, ix), s.GetExpectationValue(O, 0, ix, 1e300, a1), s.GetExpectationValueD(O, 0, grid[ix]), s.GetExpectationValueD(O, 0, grid[ix], ubuf),
                     s.GetExpectationValueD(O, 0, grid[ix], 1e300, a2), s.GetExpectationValueD(O, 0, grid[ix], ubuf, 1e300, a3), s.GetExpectationValue(O, 0, ix, INFINITY, a1)};
      for (int q = 0; q < 7; q++) if (!(std::fabs(g[q] - want) <= tol)) { violation("GetExpectationValue:common-energy-plus-small-splittings:d=" + std::to_string(d), J().i("d", d).num("common_energy", cf[0]).num("splitting", cf[1]).num("elapsed", cf[2]).i("node", ix).i("overload", q).num("got", g[q]).num("want", want).num("tol", tol).done()); break; }
    }
  }
}

// the same x asked again through the same caller buffer (and through the buffer-less overloads) after the object was re-gridded in
// place: the answer is that of a fresh object holding the new grid (differential oracle), or an error once x is outside
static void regrid_same_query() {
  for (int d : {2, 3, 4}) for (int kind = 0; kind < 2; kind++) {
    auto fill = [&](Sol& s) { for (unsigned ix = 0; ix < 5; ix++) s.setrho(ix, 0, scaled(probe(d, ix % 3), 1 + 0.3 * ix)); };
    Sol s(5, d, 1, 0.25); squids::SQuIDS::expectationValueDBuffer B(d); int np = d * (d - 1) / 2; std::vector<bool> avr(np, true);
    SU_vector O = mkvec(d, probe(d, 2));
    const double RNG[][2] = {{0.5, 10}, {0.5, 8}, {1.0, 9.5}, {0.5, 4}, {0.5, 12}};   // the query x = 7 is inside all but the fourth
    for (auto& r : RNG) {
      if (kind) s.Set_xrange(r[0], r[1], "log"); else s.Set_xrange(r[0], r[1], "lin");
      fill(s); if (&r == &RNG[0]) s.Evolve(1.25);
      Sol f(5, d, 1, 0.25); if (kind) f.Set_xrange(r[0], r[1], "log"); else f.Set_xrange(r[0], r[1], "lin"); fill(f); f.Evolve(1.25);
      squids::SQuIDS::expectationValueDBuffer Bf(d); count("evaluations"); count("regrid_same_query");
      for (int q = 0; q < 4; q++) {
        double got = NAN, want = NAN; bool tg = false, tw = false; std::vector<bool> a2(np, true);
        try { got = q == 0 ? s.GetExpectationValueD(O, 0, 7.0, B) : q == 1 ? s.GetExpectationValueD(O, 0, 7.0) : q == 2 ? s.GetExpectationValueD(O, 0, 7.0, B, 1e300, avr) : s.GetExpectationValueD(O, 0, 7.0, 1e300, avr); } catch (const std::exception&) { tg = true; }
        try { want = q == 0 ? f.GetExpectationValueD(O, 0, 7.0, Bf) : q == 1 ? f.GetExpectationValueD(O, 0, 7.0, Bf) : f.GetExpectationValueD(O, 0, 7.0, Bf, 1e300, a2); } catch (const std::exception&) { tw = true; }
        bool inside = 7.0 >= r[0] && 7.0 <= r[1];
        if (tw == inside) { violation("harness:fresh-object-disagrees-with-range", J().num("a", r[0]).num("b", r[1]).done()); continue; }
        if (tg != tw || (!tg && !(std::fabs(got - want) <= 1e-12 * (1 + std::fabs(want))))) violation("GetExpectationValueD:same-x-after-regridding:d=" + std::to_string(d), J().i("d", d).str("scale", kind ? "log" : "lin").num("a", r[0]).num("b", r[1]).i("overload", q).i("threw", tg).num("got", got).num("fresh_object", want).done());
      }
    }
  }
}

// thread-local scratch buffers of the buffer-less overloads: solvers of different dimension queried alternately on one (fresh) thread
static void scratch_sequences() {
  for (int d1 = 2; d1 <= 6; d1++) for (int d2 = 2; d2 <= 6; d2++) for (int d3 = 2; d3 <= 6; d3++) {
    std::thread th([=]() {
      int ds[3] = {d1, d2, d3};
      std::vector<std::unique_ptr<Sol>> sol; std::vector<double> want(3);
      std::vector<double> grid = {0.5, 1.5, 4.0};
      for (int q = 0; q < 3; q++) {
        int d = ds[q]; sol.emplace_back(new Sol(3, d, 1, 0.25)); Sol& s = *sol.back(); s.h0scale = 1.0 + 0.37 * q; s.Set_xrange(grid);   // every object has its own H0
        for (unsigned ix = 0; ix < 3; ix++) s.setrho(ix, 0, scaled(probe(d, ix), 1 + 0.1 * q));
        s.Evolve(0.75);
        double x = 2.0, f2 = (x - 1.5) / 2.5; std::vector<double> rx(d * d); for (int k = 0; k < d * d; k++) rx[k] = (1 - f2) * s.getrho(1, 0)[k] + f2 * s.getrho(2, 0)[k];
        want[q] = ref_expect(d, rx, probe(d, 2), s.h0spec(x, 0), 0.75);
      }
      for (int round = 0; round < 2; round++) for (int q = 0; q < 3; q++) {
        count("evaluations"); count("scratch_sequence_queries");
        int d = ds[q]; std::vector<bool> avr(d * (d - 1) / 2, false);
        double g1 = NAN, g2 = NAN;
        try { g1 = sol[q]->GetExpectationValueD(mkvec(d, probe(d, 2)), 0, 2.0); g2 = sol[q]->GetExpectationValueD(mkvec(d, probe(d, 2)), 0, 2.0, 1e300, avr); }
        catch (const std::exception& ex) { violation("GetExpectationValueD:thread-local-scratch:throws-for-x-inside", J().i("d1", d1).i("d2", d2).i("d3", d3).i("query", q).str("what", ex.what()).done()); continue; }
        double tol = 1e-12 * (1 + std::fabs(want[q])) * d * d;
        if (!(std::fabs(g1 - want[q]) <= tol) || !(std::fabs(g2 - want[q]) <= tol)) violation("GetExpectationValueD:thread-local-scratch:dimension-sequence", J().i("d1", d1).i("d2", d2).i("d3", d3).i("query", q).i("round", round).num("got", g1).num("got_avg", g2).num("want", want[q]).done());
      }
    });
    th.join();
    distinct(ref::fnv(&d1, 4, d2 * 10 + d3));
  }
}

int main(int argc, char** argv) {
  Args ar = parse(argc, argv); quiet_gsl();
  bool th = ar.thorough();
  std::vector<int> dims = (th && !ar.reduced) ? std::vector<int>{2, 3, 4, 5, 6} : (ar.reduced ? std::vector<int>{2, 3} : std::vector<int>{2, 3, 6});
  std::vector<GridSpec> grids;
  auto lin = [](unsigned n, double a, double b) { std::vector<double> g(n); for (unsigned i = 0; i < n; i++) g[i] = a + (b - a) * i / (n - 1); return g; };
  auto lg = [](unsigned n, double a, double b) { std::vector<double> g(n); for (unsigned i = 0; i < n; i++) g[i] = std::exp(std::log(a) + (std::log(b) - std::log(a)) * i / (n - 1)); return g; };
  for (unsigned n : {2u, 3u, 4u, 5u, 7u}) grids.push_back({"linear" + std::to_string(n), 0, -1.0, 3.0, lin(n, -1.0, 3.0)});
  for (unsigned n : {2u, 3u, 5u}) grids.push_back({"log" + std::to_string(n), 1, 0.1, 20.0, lg(n, 0.1, 20.0)});
  grids.push_back({"user-a", 2, 0, 0, {-2.0, -1.63, 1.48, 4.33, 9.0}}); grids.push_back({"user-b", 2, 0, 0, {0.01, 0.0158, 0.05, 2.0}}); grids.push_back({"user-c", 2, 0, 0, {-5.0, 1.0, 1.001, 100.0}});
  // neighbouring nodes that are adjacent doubles (a strictly increasing grid all the same): one-ulp intervals at the start, inside, at the end
  grids.push_back({"user-ulp-inside", 2, 0, 0, {0.5, 1.0, std::nextafter(1.0, 2.0), 2.0}});
  grids.push_back({"user-ulp-ends", 2, 0, 0, {-3.0, std::nextafter(-3.0, 0.0), 0.75, 4.0, std::nextafter(4.0, 5.0)}});
  // elapsed time may be negative (Evolve(-dt) without numerics just moves the clock back): "any t-t_ini"
  std::vector<TimeCfg> tcs = {{0, 0, false}, {1.5, 0, false}, {1.5, 0.5, false}, {0, 2, false}, {1.5, 2, false}, {1.5, 0.5, true}, {0, 2, true}, {1.5, -1.25, false}, {0, -0.6, false},
                              // the clock lands exactly on 0 although t_ini is not 0 (t == 0 is not "nothing has elapsed"); negative t_ini
                              {1.5, -1.5, false}, {-2.0, 2.0, false}, {-2.0, 0.75, false}};
  if (ar.reduced) { grids.resize(3); tcs = {{1.5, 0.5, false}, {0, 2, true}, {1.5, -1.25, false}, {1.5, -1.5, false}}; }
  long long caseno = 0;
  // every grid through the vector overload and through its natural overload on a fresh object, for every time configuration; the
  // histories that reach the grid on a used object for two time configurations
  for (int d : dims) for (auto& g : grids) for (size_t ti = 0; ti < tcs.size(); ti++) for (int hist = 0; hist < N_GH; hist++) {
    if ((hist == GH_NATURAL || hist == GH_REINI_FEWER) && g.kind == 2) continue;   // (the vector overload replaces the whole node vector)
    if (hist >= GH_AFTER_LIN && !(ti == 0 || ti == 2 % tcs.size())) continue;
    if ((caseno++ % ar.nshards) != ar.shard) continue;
    run_grid(d, g, hist, tcs[ti], ar.reduced || hist >= GH_AFTER_LIN);
  }
  if (ar.shard == 0 && !ar.reduced) scratch_sequences();
  if (ar.shard == 0) steep_nodes();
  if (ar.shard == 0) near_identity_h0();
  if (ar.shard == 0) regrid_same_query();
  finish();
  return 0;
}
