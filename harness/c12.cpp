// C12: GetEigenSystem is a valid eigen-decomposition for every Hermitian input (self-certifying oracle).
#define VF_EARLY
#include "bind.hpp"
#include <gsl/gsl_vector.h>
using namespace vf;

static long long g_idx = 0;

static Mat unitary(int d, int which) {  // fixed unitary: product of plane rotations
  Mat U = ref::eye(d);
  for (int i = 0; i < d; i++) for (int j = i + 1; j < d; j++) {
    double th = 0.4 + 0.37 * i + 0.23 * j + 0.9 * which, de = which ? 0.3 * (i + 1) - 0.2 * j : 0.0;
    Mat R = ref::eye(d); R(i, i) = std::cos(th); R(j, j) = std::cos(th); R(i, j) = std::sin(th) * std::exp(cd(0, -de)); R(j, i) = -std::sin(th) * std::exp(cd(0, de));
    U = R * U;
  }
  return U;
}

static void check(int d, const std::vector<double>& c, const char* family) {
  const ref::Basis& B = ref::basis(d);
  maybe_pollute(d, 37);
  { static long ncall = 0; if (++ncall % 3 == 0) std::feraiseexcept(FE_ALL_EXCEPT); else if (ncall % 3 == 1) std::feclearexcept(FE_ALL_EXCEPT); }   // the caller's sticky exception flags are the caller's business
  Mat M = B.tomat(c);
  double nM = std::max(ref::maxabs(M), 1e-300);
  for (int order = 0; order < 2; order++) {
    count("evaluations");
    if (maxabs(c) > 0) { uint64_t h = hashvec(c, d * 2 + order); distinct(h); }
    sample_every(g_idx++, 911, J().str("family", family).i("d", d).i("ordered", order).arr("components", c).done());
    SU_vector v = mkvec(d, c);
    auto es = v.GetEigenSystem(order != 0);
    const gsl_vector* L = es.first.get(); Mat V = gsl2mat(es.second.get());
    std::vector<double> lam(d); bool fin = ref::finite(V) && (int)L->size == d;
    for (int i = 0; i < d && i < (int)L->size; i++) { lam[i] = gsl_vector_get(L, i); if (!std::isfinite(lam[i])) fin = false; }
    std::string ctx = J().str("family", family).i("d", d).i("ordered", order).arr("components", c).arr("eigenvalues", lam).done();
    std::string ds = std::string(":d=") + std::to_string(d) + ":" + family;
    if (!fin) { violation("GetEigenSystem:nonfinite" + ds, ctx); continue; }
    double un = ref::maxabs(ref::dagger(V) * V - ref::eye(d));
    maxstat("unitarity_defect", un);
    if (!(un <= 1e-10)) { violation("GetEigenSystem:eigenvectors-not-orthonormal" + ds, ctx); continue; }
    Mat Dg(d); for (int i = 0; i < d; i++) Dg(i, i) = lam[i];
    double res = ref::maxabs(M * V - V * Dg) / nM;
    maxstat("relative_residual", res);
    if (!(res <= 1e-9)) { violation("GetEigenSystem:residual" + ds, ctx); continue; }
    if (order) for (int i = 0; i + 1 < d; i++) if (!(lam[i] <= lam[i + 1])) { violation("GetEigenSystem:not-ascending" + ds, ctx); break; }
  }
}

int main(int argc, char** argv) {
  Args ar = parse(argc, argv); quiet_gsl();
  for (int d = 2; d <= 6; d++) {
    const ref::Basis& B = ref::basis(d); int n = d * d;
    check(d, std::vector<double>(n, 0.0), "zero");
    for (int k = 0; k < n; k++) check(d, unit(d, k), "generator");
    if (!ar.reduced) for (int k = 0; k < n; k++) for (int l = k + 1; l < n; l++) { check(d, twohot(d, k, l, 1, 1), "two-hot"); check(d, twohot(d, k, l, 1, 2), "two-hot"); check(d, twohot(d, k, l, 1, -1), "two-hot-cancelling"); }
    // three-hot with components summing to zero, and sign patterns over all off-diagonal slots (small-scope enumeration of {-1,0,1})
    if (!ar.reduced && d <= 3) { int no = d * d - d; std::vector<int> off; for (int i = 0; i < d; i++) for (int j = 0; j < d; j++) if (i != j) off.push_back(d * i + j);
      long tot = 1; for (int q = 0; q < no; q++) tot *= 3;
      for (long code = 0; code < tot; code++) { std::vector<double> c(n, 0.0); long cc = code; for (int q = 0; q < no; q++) { c[off[q]] = (double)(cc % 3) - 1.0; cc /= 3; } c[d] = 0.5; check(d, c, "offdiag-sign-pattern"); } }
    // diagonal matrices over {0,1,2}^d: projectors, multiples of the identity, every degeneracy pattern
    long long total = 1; for (int i = 0; i < d; i++) total *= 3;
    for (long long code = 0; code < total; code++) { std::vector<double> e(d); long long c = code; for (int i = 0; i < d; i++) { e[i] = (double)(c % 3); c /= 3; } check(d, B.proj(ref::diag(e)), "diagonal"); }
    // rank one from six fixed unit vectors
    for (int w = 0; w < 6; w++) {
      std::vector<cd> u(d); double nn = 0; for (int i = 0; i < d; i++) { u[i] = cd(std::cos(1.1 * i + w), (w % 2) ? std::sin(0.7 * i - w) : 0.0); if (w == 5) u[i] = (i == 0) ? 1.0 : 0.0; nn += std::norm(u[i]); }
      Mat P(d); for (int i = 0; i < d; i++) for (int j = 0; j < d; j++) P(i, j) = u[i] * std::conj(u[j]) / nn;
      check(d, B.proj(P), "rank-one");
    }
    for (int w = 0; w < 3; w++) { check(d, probe(d, w), "dense"); check(d, scaled(probe(d, w), 1e100), "dense-scaled"); check(d, scaled(probe(d, w), 1e-100), "dense-scaled"); }
    // well separated levels coupled weakly (mixing angles from 1e-6 down to 1e-14): the eigenvectors change in first order
    for (double g : {1e-6, 1e-7, 1e-8, 3e-9, 1e-9, 1e-10, 1e-11, 1e-12, 1e-14}) for (int pat = 0; pat < 2; pat++) {
      Mat M(d); for (int i = 0; i < d; i++) M(i, i) = (double)i * (pat ? 1.0 : -0.7) + (pat ? 0 : 0.3 * i * i);
      for (int i = 0; i < d; i++) for (int j = i + 1; j < d; j++) if (pat || j == i + 1) { M(i, j) = cd(g * (1 + 0.1 * i), pat ? g * 0.5 : 0); M(j, i) = std::conj(M(i, j)); }
      check(d, B.proj(M), "levels-plus-weak-coupling");
    }
    // identity component and traceless part of independent magnitudes (incl. ones whose squares leave the double range)
    for (double c0 : {0.0, 1.0, -3.0, 1e5, 1e8, 2e154, -1e160, 1e165, 1e-160, 3e300}) for (double tm : {1.0, 1e-8, 1e8, 1e140, 1e152, 1e154, 1e-154, 1e-200, 1e-304, 3e-308}) {
      if (!(std::fabs(c0) <= 1e300 / 8 && tm <= 1e300 / 8)) { if (std::fabs(c0) > 1e300 / 8 && tm > 1e150) continue; }
      std::vector<double> c = scaled(probe(d, 1), tm / maxabs(probe(d, 1))); c[0] = c0;
      check(d, c, "identity-plus-traceless");
    }
    // near-degenerate: W diag(1,1+eps,2,3,..) W^dagger
    for (int w = 0; w < 2; w++) { Mat W = unitary(d, w), Wd = ref::dagger(W);
      for (double eps : {1e-6, 1e-9, 1e-12, 0.0}) { std::vector<double> e(d); for (int i = 0; i < d; i++) e[i] = (i == 0) ? 1.0 : (i == 1 ? 1.0 + eps : (double)i); check(d, B.proj(W * ref::diag(e) * Wd), eps == 0 ? "degenerate-rotated" : "near-degenerate"); } }
  }
  check_early({12});
  finish();
  return 0;
}
