// C18: independent use from several threads.
//   explorer pass (default): real pthreads serialised by a baton; scheduling points at channel operations and at every
//                            arena new[]/delete[]; all interleavings within a preemption bound; oracle: results bit-identical
//                            to the sequential schedule, ledger clean, blocks cached by a thread given back when it ends.
//   race pass (-DC18_FREE):  the same bodies free-running under ThreadSanitizer.
#ifndef C18_FREE
#define VF_SCHED_PTHREADS
#include "arena.hpp"
#include "sched.hpp"
#endif
#include "bind.hpp"
#include <SQuIDS/SQuIDS.h>
#include <thread>
#include <chrono>
#include <mutex>
#include <condition_variable>
#include <memory>
#include <set>
using namespace vf;

// ------------------------------------------------------------------ synchronisation policy
#ifdef C18_FREE
struct Chan { std::mutex m; std::condition_variable cv; bool full = false; SU_vector v;
  void send(SU_vector&& x) { std::unique_lock<std::mutex> l(m); cv.wait(l, [&] { return !full; }); v = std::move(x); full = true; cv.notify_all(); }
  SU_vector recv() { std::unique_lock<std::mutex> l(m); cv.wait(l, [&] { return full; }); SU_vector r(std::move(v)); full = false; cv.notify_all(); return r; } };
#else
struct Chan { bool full = false; SU_vector v;
  void send(SU_vector&& x) { sched::wait_until([this] { return !full; }); sched::point(); v = std::move(x); full = true; sched::point(); }
  SU_vector recv() { sched::wait_until([this] { return full; }); sched::point(); SU_vector r(std::move(v)); full = false; sched::point(); return r; } };
#endif

typedef std::vector<double> Out;
// every body ends by comparing its thread's floating-point mode word with the one the process started with (threads inherit it)
static volatile int g_env_changed = 0;
static void env_check() { if (fp_env_word() != fp_env_at_start()) g_env_changed = 1; }
static void put(Out& o, const SU_vector& v) { for (unsigned i = 0; i < v.Size(); i++) o.push_back(v[i]); }

// ------------------------------------------------------------------ body A: own vectors
static void body_own(int t, Out& out) {
  for (int rep = 0; rep < 2; rep++) for (int d : {2 + (t % 3), 3, 6 - (t % 2)}) {
    const ref::Basis& B = ref::basis(d);
    SU_vector a = mkvec(d, probe(d, t % 3)), b = mkvec(d, probe(d, (t + 1) % 3));
    SU_vector s = a + b; put(out, s);
    SU_vector c = squids::iCommutator(a, b); put(out, c);
    SU_vector ac(squids::ACommutator(a, b)); put(out, ac);
    std::vector<double> e(d); for (int j = 0; j < d; j++) e[j] = 0.4 * j - 0.1 * j * j + 0.05 * t;
    SU_vector H = mkvec(d, B.proj(ref::diag(e)));
    SU_vector ev = a.Evolve(H, 0.7); put(out, ev);
    std::vector<double> buf(d * (d - 1)); H.PrepareEvolve(buf.data(), 0.3); SU_vector ev2 = a.Evolve(buf.data()); put(out, ev2);
    SU_vector r = a.Rotate(0, 1, 0.3, 0.2); put(out, r);
    SU_vector u = a.UTransform(b, gsl_complex_rect(0, 0.5)); put(out, u);   // matrix exponential: thread-local scratch and RNG
    out.push_back(a * b);
    SU_vector m = std::move(s) - c; put(out, m);
    // constant operators from the factories: every thread asks for the same ones, the first request of the process included
    { SU_vector P = SU_vector::Projector(d, d - 1), I = SU_vector::Identity(d), G = SU_vector::Generator(d, 1), Pp = SU_vector::PosProjector(d, 1), Pn = SU_vector::NegProjector(d, 1), al = SU_vector::make_aligned(d);
      put(out, P); put(out, I); put(out, G); put(out, Pp); put(out, Pn); put(out, al); out.push_back(P * P); }
  }
  env_check();
  SU_vector::clear_mem_cache();
}

// ------------------------------------------------------------------ body B: hand-over ring
struct Ring { int n; std::vector<std::unique_ptr<Chan>> ch; };
static void body_ring(Ring& R, int t, Out& out) {
  int d = 3;
  for (int round = 0; round < 2; round++) {
    if (t == 0) { SU_vector v = mkvec(d, scaled(probe(d, round), 1.0 + round)); R.ch[1 % R.n]->send(std::move(v)); SU_vector back = R.ch[0]->recv(); put(out, back); }
    else {
      SU_vector v = R.ch[t]->recv();                     // block allocated on the previous thread
      SU_vector w = v * 2.0; put(out, w);
      { SU_vector dead(std::move(v)); }                  // released here: lands in this thread's cache
      SU_vector z(d);                                    // allocated again: gets that block
      for (int k = 0; k < d * d; k++) z[k] = w[k] + t;
      SU_vector y = z + w; put(out, y);
      R.ch[(t + 1) % R.n]->send(std::move(z));
    }
  }
  env_check();
  SU_vector::clear_mem_cache();
}

// ------------------------------------------------------------------ body C: const queries on a shared solver
struct Sol : squids::SQuIDS {
  int d;
  Sol(unsigned nx, unsigned dim) : squids::SQuIDS(nx, dim, 2, 0, 0.5), d(dim) {}
  squids::SU_vector H0(double x, unsigned irho) const override { std::vector<double> e(d); for (int j = 0; j < d; j++) e[j] = (0.8 * j - 0.35 * j * j + 0.1) * x * (1 + irho); return mkvec(d, ref::basis(d).proj(ref::diag(e))); }
  void setrho(unsigned ix, unsigned irho, const std::vector<double>& c) { for (int k = 0; k < d * d; k++) state[ix].rho[irho][k] = c[k]; }
};
static std::unique_ptr<Sol> make_solver(int d) { std::unique_ptr<Sol> s(new Sol(3, d)); s->Set_xrange(std::vector<double>{0.5, 1.5, 4.0}); for (unsigned ix = 0; ix < 3; ix++) for (unsigned ir = 0; ir < 2; ir++) s->setrho(ix, ir, scaled(probe(d, (ix + ir) % 3), 1 + 0.2 * ix)); s->Evolve(0.75); return s; }
// use_tls=false (reference values computed on the main thread) replaces the two buffer-less overloads by the explicit-buffer
// ones: their thread-local static scratch on the main thread would outlive an episode of the arena
static const SU_vector* g_shared_op = nullptr;   // an operator built by the main thread and only read by the workers
static void body_query(const Sol& s, int t, Out& out, bool use_tls = true) {
  int d = s.d; std::vector<bool> avr(d * (d - 1) / 2);
  // odd threads make a buffer-less query their very FIRST library call (no vector of their own built before): the order in
  // which the thread-local scratch buffer and the thread-local block cache come to life then differs from the usual one
  if (g_shared_op && (t % 2 == 1)) {
    squids::SQuIDS::expectationValueDBuffer* nb = nullptr; (void)nb;
    if (use_tls) out.push_back(s.GetExpectationValueD(*g_shared_op, 0, 1.25));
    else { squids::SQuIDS::expectationValueDBuffer b0(d); out.push_back(s.GetExpectationValueD(*g_shared_op, 0, 1.25, b0)); }
  }
  for (int rep = 0; rep < 2; rep++) for (unsigned ir = 0; ir < 2; ir++) {
    SU_vector O = mkvec(d, probe(d, (t + ir) % 3));
    double x = (t % 2) ? 2.0 : 1.0 + 0.5 * ir;           // overlapping and disjoint (irho, x)
    squids::SQuIDS::expectationValueDBuffer buf(d);
    out.push_back(s.GetExpectationValue(O, ir, (t + rep) % 3));
    out.push_back(s.GetExpectationValue(O, ir, (t + rep) % 3, 0.9, avr));
    out.push_back(use_tls ? s.GetExpectationValueD(O, ir, x) : s.GetExpectationValueD(O, ir, x, buf));
    out.push_back(use_tls ? s.GetExpectationValueD(O, ir, x, 0.9, avr) : s.GetExpectationValueD(O, ir, x, buf, 0.9, avr));
    out.push_back(s.GetExpectationValueD(O, ir, x, buf));
    out.push_back(s.GetExpectationValueD(O, ir, x, buf, 1e300, avr));
    SU_vector is = s.GetIntermediateState(ir, x); put(out, is);
  }
  env_check();
  SU_vector::clear_mem_cache();
}

// ------------------------------------------------------------------ body E: every thread builds, evolves and queries its own solver
struct NumSol : Sol {
  NumSol(unsigned nx, unsigned dim) : Sol(nx, dim) { Set_CoherentRhoTerms(true); Set_rel_error(1e-9); Set_abs_error(1e-9); Set_h(1e-3); }
  squids::SU_vector HI(unsigned ix, unsigned irho, double t) const override { std::vector<double> e(d); for (int j = 0; j < d; j++) e[j] = (0.3 * j + 0.1 * ix - 0.2 * irho) * (1 + 0.3 * t); SU_vector h = mkvec(d, ref::basis(d).proj(ref::diag(e))); h[1] = 0.25; return h; }
};
static void body_own_solver(int t, Out& out) {
  int d = 2 + (t % 2);
  { NumSol s(2, d); s.Set_xrange(0.5, 2.0, "lin");
    for (unsigned ix = 0; ix < 2; ix++) for (unsigned ir = 0; ir < 2; ir++) s.setrho(ix, ir, scaled(probe(d, (ix + ir + t) % 3), 0.5));
    s.Evolve(0.3); s.Evolve(0.2);
    SU_vector O = mkvec(d, probe(d, 1));
    for (unsigned ir = 0; ir < 2; ir++) { out.push_back(s.GetExpectationValue(O, ir, 1)); out.push_back(s.GetExpectationValueD(O, ir, 1.1)); SU_vector is = s.GetIntermediateState(ir, 0.9); put(out, is); }
    out.push_back(s.Get_t());
    NumSol moved(std::move(s)); moved.Evolve(0.1); out.push_back(moved.GetExpectationValue(O, 0, 0));
  }
  env_check();
  SU_vector::clear_mem_cache();
}

// ------------------------------------------------------------------ body D': hand-over of a vector of another dimension, then thread exit
// The producer works in dimension 3 (temporaries released into its cache), then builds ONE vector of dimension 4 and gives it
// away; it releases nothing afterwards and ends without emptying its cache. The consumer releases the received vector and ends too.
static Chan* g_exit_chan = nullptr;
static void body_exit_handover(int t, Out& out) {
  if (t == 0) {
    { SU_vector a = mkvec(3, probe(3, 0)), b = mkvec(3, probe(3, 1)); SU_vector c = a + b; SU_vector e = squids::iCommutator(a, c); out.push_back(e[1]); }
    SU_vector gift((unsigned)4); for (int k = 0; k < 16; k++) gift[k] = 0.5 * k;
    g_exit_chan->send(std::move(gift));
  } else if (t == 1) {
    SU_vector got = g_exit_chan->recv(); out.push_back(got[5]);
    { SU_vector tmp = got * 2.0; out.push_back(tmp[5]); }
  } else { SU_vector x = mkvec(2, probe(2, 0)); out.push_back(x[1]); }
}

// ------------------------------------------------------------------ body D: thread exit
static void body_exit(int t, Out& out) {
  std::vector<SU_vector> vs; for (int d = 2; d <= 6; d++) { vs.emplace_back((unsigned)d); vs.back()[1] = d + t; }
  SU_vector sum = vs[1] + vs[1]; out.push_back(sum[1]);
  // no clear_mem_cache(): the thread ends with blocks in its cache (5 + 1 released when vs and sum die)
}

// ------------------------------------------------------------------ body F: calls that end in the (uninstrumented) numerical library
static void body_libcalls(int t, Out& out) {
  for (int d : {2 + (t % 2), 3}) {
    SU_vector a = mkvec(d, probe(d, t % 3)), b = mkvec(d, probe(d, (t + 1) % 3));
    out.push_back((2.0 * a) * (3.0 * b));                       // scalar product of two expression results
    out.push_back((a + b) * squids::ACommutator(a, b));
    { auto es = a.GetEigenSystem(true);
      for (int i = 0; i < d; i++) out.push_back(gsl_vector_get(es.first.get(), i));
      for (int i = 0; i < d; i++) for (int j = 0; j < d; j++) { gsl_complex z = gsl_matrix_complex_get(es.second.get(), i, j); out.push_back(GSL_REAL(z)); out.push_back(GSL_IMAG(z)); } }
    SU_vector u = a.UTransform(b, gsl_complex_rect(0, 0.5)); put(out, u);   // matrix exponential: products, LU solve, random draws
    { Mat U = ref::eye(d); U(0, 0) = std::cos(0.7); U(1, 1) = std::cos(0.7); U(0, 1) = std::sin(0.7); U(1, 0) = -std::sin(0.7); GslMat Ug(U); SU_vector r = a.UTransform(Ug.g); put(out, r); SU_vector r2 = b.Rotate(Ug.g); put(out, r2); }
  }
  env_check();
  SU_vector::clear_mem_cache();
}
static gsl_error_handler_t* g_handler0 = nullptr;   // the process-wide GSL error handler the harness installed before any thread ran
static gsl_error_handler_t* current_gsl_handler();

#ifndef C18_FREE
// The numerical library is not instrumented, so the explorer cannot preempt inside one of its calls. Each call the library
// under test makes into it is therefore modelled as a non-atomic operation: on entry the objects it writes and reads are
// marked as in use by this thread, the thread yields (scheduling point), and only when it is resumed is the real call made
// and the marks removed. A second thread entering a call on an object that a call of another thread is still using (one of
// them writing) is a data race on storage the two threads share -- reported on the schedule that exhibits it.
#include <dlfcn.h>
#include <gsl/gsl_eigen.h>
#include <gsl/gsl_blas.h>
#include <gsl/gsl_linalg.h>
#include <gsl/gsl_rng.h>
#include <map>
namespace opaque {
static bool enabled = false;
struct Use { int tid; bool write; };
static std::multimap<const void*, Use> busy;
static std::string conflict;
static long calls = 0;
static char handler_token;
struct Scope {
  std::vector<const void*> mine; bool on; int me;
  Scope(const char* fn, std::initializer_list<const void*> writes, std::initializer_list<const void*> reads) : on(false), me(-1) {
    sched::Explorer* e = sched::Explorer::self(); on = enabled && e && e->in_fiber;
    if (!on) return;
    me = e->cur; calls++;
    auto chk = [&](const void* p, bool w) { auto r = busy.equal_range(p); for (auto it = r.first; it != r.second; ++it) if (it->second.tid != me && (w || it->second.write) && conflict.empty()) conflict = fmt("%s entered on thread %d with an object that a call made by thread %d is still using", fn, me, it->second.tid); };
    for (auto p : writes) if (p) chk(p, true);
    for (auto p : reads) if (p) chk(p, false);
    for (auto p : writes) if (p) { busy.insert({p, Use{me, true}}); mine.push_back(p); }
    for (auto p : reads) if (p) { busy.insert({p, Use{me, false}}); mine.push_back(p); }
    sched::point();
  }
  ~Scope() { if (!on) return; for (auto p : mine) { auto r = busy.equal_range(p); for (auto it = r.first; it != r.second; ++it) if (it->second.tid == me) { busy.erase(it); break; } } }
};
template <class F> static F real(const char* name) { void* p = dlsym(RTLD_NEXT, name); if (!p) { fprintf(stderr, "harness: cannot resolve %s\n", name); abort(); } return (F)p; }
}
#define OPAQUE_REAL(name) static decltype(&name) real_ = opaque::real<decltype(&name)>(#name)
extern "C" {
int gsl_eigen_hermv(gsl_matrix_complex* A, gsl_vector* eval, gsl_matrix_complex* evec, gsl_eigen_hermv_workspace* w) { OPAQUE_REAL(gsl_eigen_hermv); opaque::Scope s("gsl_eigen_hermv", {A->data, eval->data, evec->data, w}, {}); return real_(A, eval, evec, w); }
int gsl_eigen_hermv_sort(gsl_vector* eval, gsl_matrix_complex* evec, gsl_eigen_sort_t t) { OPAQUE_REAL(gsl_eigen_hermv_sort); opaque::Scope s("gsl_eigen_hermv_sort", {eval->data, evec->data}, {}); return real_(eval, evec, t); }
int gsl_blas_zgemm(CBLAS_TRANSPOSE_t ta, CBLAS_TRANSPOSE_t tb, const gsl_complex alpha, const gsl_matrix_complex* A, const gsl_matrix_complex* B, const gsl_complex beta, gsl_matrix_complex* C) { OPAQUE_REAL(gsl_blas_zgemm); opaque::Scope s("gsl_blas_zgemm", {C->data}, {A->data, B->data}); return real_(ta, tb, alpha, A, B, beta, C); }
int gsl_linalg_complex_LU_decomp(gsl_matrix_complex* A, gsl_permutation* p, int* signum) { OPAQUE_REAL(gsl_linalg_complex_LU_decomp); opaque::Scope s("gsl_linalg_complex_LU_decomp", {A->data, p->data}, {}); return real_(A, p, signum); }
int gsl_linalg_complex_LU_solve(const gsl_matrix_complex* LU, const gsl_permutation* p, const gsl_vector_complex* b, gsl_vector_complex* x) { OPAQUE_REAL(gsl_linalg_complex_LU_solve); opaque::Scope s("gsl_linalg_complex_LU_solve", {x->data}, {LU->data, p->data, b->data}); return real_(LU, p, b, x); }
int gsl_matrix_complex_memcpy(gsl_matrix_complex* dest, const gsl_matrix_complex* src) { OPAQUE_REAL(gsl_matrix_complex_memcpy); opaque::Scope s("gsl_matrix_complex_memcpy", {dest->data}, {src->data}); return real_(dest, src); }
int gsl_matrix_complex_add(gsl_matrix_complex* a, const gsl_matrix_complex* b) { OPAQUE_REAL(gsl_matrix_complex_add); opaque::Scope s("gsl_matrix_complex_add", {a->data}, {b->data}); return real_(a, b); }
int gsl_matrix_complex_sub(gsl_matrix_complex* a, const gsl_matrix_complex* b) { OPAQUE_REAL(gsl_matrix_complex_sub); opaque::Scope s("gsl_matrix_complex_sub", {a->data}, {b->data}); return real_(a, b); }
int gsl_matrix_complex_scale(gsl_matrix_complex* a, const gsl_complex x) { OPAQUE_REAL(gsl_matrix_complex_scale); opaque::Scope s("gsl_matrix_complex_scale", {a->data}, {}); return real_(a, x); }
unsigned long int gsl_rng_uniform_int(const gsl_rng* r, unsigned long int n) { OPAQUE_REAL(gsl_rng_uniform_int); opaque::Scope s("gsl_rng_uniform_int", {r->state}, {}); return real_(r, n); }
gsl_error_handler_t* gsl_set_error_handler(gsl_error_handler_t* h) { OPAQUE_REAL(gsl_set_error_handler); opaque::Scope s("gsl_set_error_handler", {&opaque::handler_token}, {}); return real_(h); }
gsl_error_handler_t* gsl_set_error_handler_off(void) { OPAQUE_REAL(gsl_set_error_handler_off); opaque::Scope s("gsl_set_error_handler_off", {&opaque::handler_token}, {}); return real_(); }
}
#endif
static gsl_error_handler_t* current_gsl_handler() { gsl_error_handler_t* h = gsl_set_error_handler_off(); gsl_set_error_handler(h); return h; }

static bool same(const std::vector<Out>& a, const std::vector<Out>& b, bool exact, std::string& why) {
  if (a.size() != b.size()) { why = "thread count"; return false; }
  for (size_t t = 0; t < a.size(); t++) { if (a[t].size() != b[t].size()) { why = fmt("thread %zu produced %zu values, reference %zu", t, a[t].size(), b[t].size()); return false; }
    for (size_t k = 0; k < a[t].size(); k++) if (exact ? !ref::biteq(a[t][k], b[t][k]) : !(std::fabs(a[t][k] - b[t][k]) <= 1e-12 * (1 + std::fabs(b[t][k])))) { why = fmt("thread %zu value %zu: %.17g vs %.17g", t, k, a[t][k], b[t][k]); return false; } }
  return true;
}

#ifdef C18_FREE
// ------------------------------------------------------------------ race pass: free running under ThreadSanitizer
int main(int argc, char** argv) {
  Args ar = parse(argc, argv); quiet_gsl(); g_handler0 = current_gsl_handler();
  for (int d = 2; d <= 6; d++) ref::basis(d);   // the harness's lazily built reference bases are not thread safe: build them before any thread starts
  int reps = (int)ar.geti("reps", 20);
  for (int rep = 0; rep < reps; rep++) for (int n = 2; n <= 3; n++) {
    { std::vector<Out> out(n); std::vector<std::thread> th; for (int t = 0; t < n; t++) th.emplace_back([&, t] { body_own(t, out[t]); }); for (auto& x : th) x.join();
      std::vector<Out> solo(n); for (int t = 0; t < n; t++) { std::thread x([&, t] { body_own(t, solo[t]); }); x.join(); }
      std::string why; count("evaluations"); if (!same(out, solo, true, why)) violation("free-running:own-vectors:differs-from-solo", J().i("threads", n).str("why", why).done()); }
    { Ring R; R.n = n; for (int t = 0; t < n; t++) R.ch.emplace_back(new Chan()); std::vector<Out> out(n); std::vector<std::thread> th; for (int t = 0; t < n; t++) th.emplace_back([&, t] { body_ring(R, t, out[t]); }); for (auto& x : th) x.join(); count("evaluations"); }
    { std::unique_ptr<Sol> s = make_solver(2 + rep % 3); SU_vector shared_op = mkvec(s->d, probe(s->d, 1)); g_shared_op = &shared_op; std::vector<Out> out(n), ref_(n); for (int t = 0; t < n; t++) body_query(*s, t, ref_[t], false);
      std::vector<std::thread> th; for (int t = 0; t < n; t++) th.emplace_back([&, t] { body_query(*s, t, out[t]); }); for (auto& x : th) x.join();
      std::string why; count("evaluations"); if (!same(out, ref_, true, why)) violation("free-running:shared-solver:differs-from-sequential", J().i("threads", n).str("why", why).done()); g_shared_op = nullptr; }
    { std::vector<Out> out(n); std::vector<std::thread> th; for (int t = 0; t < n; t++) th.emplace_back([&, t] { body_exit(t, out[t]); }); for (auto& x : th) x.join(); count("evaluations"); }
    { Chan ch; g_exit_chan = &ch; std::vector<Out> out(n); std::vector<std::thread> th; for (int t = 0; t < n; t++) th.emplace_back([&, t] { body_exit_handover(t, out[t]); }); for (auto& x : th) x.join(); g_exit_chan = nullptr; count("evaluations"); }
    { std::vector<Out> out(n); std::vector<std::thread> th; for (int t = 0; t < n; t++) th.emplace_back([&, t] { body_own_solver(t, out[t]); }); for (auto& x : th) x.join();
      std::vector<Out> solo(n); for (int t = 0; t < n; t++) { std::thread x([&, t] { body_own_solver(t, solo[t]); }); x.join(); }
      std::string why; count("evaluations"); if (!same(out, solo, true, why)) violation("free-running:own-solver:differs-from-solo", J().i("threads", n).str("why", why).done()); }
    { std::vector<Out> out(n); std::vector<std::thread> th; for (int t = 0; t < n; t++) th.emplace_back([&, t] { for (int q = 0; q < 4; q++) body_libcalls(t, out[t]); }); for (auto& x : th) x.join();
      std::vector<Out> solo(n); for (int t = 0; t < n; t++) { std::thread x([&, t] { for (int q = 0; q < 4; q++) body_libcalls(t, solo[t]); }); x.join(); }
      std::string why; count("evaluations"); if (!same(out, solo, true, why)) violation("free-running:library-calls:differs-from-solo", J().i("threads", n).str("why", why).done());
      if (current_gsl_handler() != g_handler0) { violation("free-running:process-wide-error-handler-changed", J().i("threads", n).done()); gsl_set_error_handler(g_handler0); } }
    if (g_env_changed) { violation("free-running:floating-point-environment-changed-in-a-worker-thread", J().i("threads", n).done()); g_env_changed = 0; }
    distinct(ref::fnv(&rep, 4, n));
  }
  sample(J().str("pass", "free-running ThreadSanitizer pass over bodies own-vectors, hand-over ring, shared solver, thread exit").i("repetitions", reps).done());
  finish();
  return 0;
}
#else
// ------------------------------------------------------------------ explorer pass
struct Scenario { std::string name; int n; int bound; };
static std::vector<Out> g_out, g_ref; static bool g_have_ref; static Ring* g_ring; static std::unique_ptr<Sol> g_solver; static std::vector<Out> g_expect_query;
static long g_live_before_threads; static std::unique_ptr<SU_vector>* g_shop_owner = nullptr;

int main(int argc, char** argv) {
  Args ar = parse(argc, argv); quiet_gsl(); install_crash_reporter(); g_handler0 = current_gsl_handler();
  for (int d = 2; d <= 6; d++) ref::basis(d);
  bool th = ar.thorough();
  std::vector<Scenario> scen = {{"own-vectors", 2, 2}, {"hand-over-ring", 2, 2}, {"shared-solver", 2, 2}, {"thread-exit", 2, 1}, {"thread-exit-after-hand-over", 2, 2}, {"own-solver", 2, 1}, {"library-calls", 2, 1}};
  if (th) { scen = {{"library-calls", 2, 2}, {"library-calls", 3, 1}, {"own-vectors", 2, 3}, {"own-vectors", 3, 2}, {"hand-over-ring", 2, 4}, {"hand-over-ring", 3, 3}, {"shared-solver", 2, 3}, {"shared-solver", 3, 2}, {"thread-exit", 2, 2}, {"thread-exit", 3, 1}, {"thread-exit-after-hand-over", 2, 4}, {"thread-exit-after-hand-over", 3, 2}, {"own-solver", 2, 2}, {"own-solver", 3, 1}}; }
  long sc_index = 0, total_exec = 0, total_points = 0;
  // wall-clock budget per scenario: when it is used up the exploration stops at the end of the current execution and
  // the evidence says so (exhaustive: false) -- a thorough run must end by itself, never by the driver's timeout
  double deadline = (double)ar.geti("deadline", th ? 1200 : 900); auto t_start = std::chrono::steady_clock::now(); bool out_of_time = false;   // per scenario
  arena::A().hook = []() { sched::point(); };
  for (auto& sc : scen) {
    if ((sc_index++ % ar.nshards) != ar.shard) continue;
    sched::Explorer ex; ex.use_hashing = false; ex.preempt_bound = sc.bound; ex.step_cap = 2000000; ex.max_executions = (long)ar.geti("max-exec", 400000);
    g_have_ref = false; std::set<std::string> outcomes; long viol = 0;
    t_start = std::chrono::steady_clock::now(); out_of_time = false;
    ex.setup = [&]() {
      arena::Arena& A = arena::A(); A.active = false; SU_vector::clear_mem_cache(); A.reset(); A.counting = false; A.align_mode = 2; A.active = true;
      g_out.assign(sc.n, Out());
      opaque::enabled = (sc.name == "library-calls"); opaque::busy.clear(); opaque::conflict.clear();
      if (sc.name == "library-calls") for (int t = 0; t < sc.n; t++) ex.spawn([t]() { body_libcalls(t, g_out[t]); });
      else if (sc.name == "own-vectors") for (int t = 0; t < sc.n; t++) ex.spawn([t]() { body_own(t, g_out[t]); });
      else if (sc.name == "hand-over-ring") { delete g_ring; g_ring = new Ring(); g_ring->n = sc.n; for (int t = 0; t < sc.n; t++) g_ring->ch.emplace_back(new Chan()); for (int t = 0; t < sc.n; t++) ex.spawn([t]() { body_ring(*g_ring, t, g_out[t]); }); }
      else if (sc.name == "shared-solver") { g_solver = make_solver(3); static std::unique_ptr<SU_vector> shop; shop.reset(new SU_vector(mkvec(3, probe(3, 1)))); g_shared_op = shop.get(); g_shop_owner = &shop; g_expect_query.assign(sc.n, Out()); for (int t = 0; t < sc.n; t++) body_query(*g_solver, t, g_expect_query[t], false); for (int t = 0; t < sc.n; t++) ex.spawn([t]() { body_query(*g_solver, t, g_out[t]); }); }
      else if (sc.name == "thread-exit-after-hand-over") { delete g_exit_chan; g_exit_chan = new Chan(); for (int t = 0; t < sc.n; t++) ex.spawn([t]() { body_exit_handover(t, g_out[t]); }); }
      else if (sc.name == "own-solver") { for (int t = 0; t < sc.n; t++) ex.spawn([t]() { body_own_solver(t, g_out[t]); }); }
      else { for (int t = 0; t < sc.n; t++) ex.spawn([t]() { body_exit(t, g_out[t]); }); }
      g_live_before_threads = A.live_blocks();
    };
    ex.check = [&](bool deadlock, bool livelock) {
      std::string sch; for (size_t i = 0; i < ex.choices.size(); i++) { if (i) sch += ","; sch += std::to_string(ex.choices[i]); }
      std::string ctx = "{\"replay\":" + jstr(sc.name + ";" + std::to_string(sc.n) + ";" + sch) + ",\"scenario\":" + jstr(sc.name) + ",\"threads\":" + std::to_string(sc.n) + ",\"schedule\":" + jstr(sch);
      if (deadlock || livelock) { violation("threads:" + sc.name + (deadlock ? ":deadlock" : ":livelock"), ctx + "}"); finish(); fflush(stdout); _exit(0); }
      arena::Arena& A = arena::A();
      if (g_env_changed) { viol++; violation("threads:" + sc.name + ":floating-point-environment-changed-in-a-worker-thread", ctx + "}"); g_env_changed = 0; }
      if (!opaque::conflict.empty()) { viol++; violation("threads:" + sc.name + ":two-threads-in-library-calls-on-one-object", ctx + ",\"what\":" + jstr(opaque::conflict) + "}"); }
      if (current_gsl_handler() != g_handler0) { viol++; violation("threads:" + sc.name + ":process-wide-error-handler-changed", ctx + "}"); gsl_set_error_handler(g_handler0); }
      // every worker thread has ended (joined): what it cached must have been given back
      if (sc.name == "thread-exit-after-hand-over") { delete g_exit_chan; g_exit_chan = nullptr; }
      if (sc.name == "thread-exit" || sc.name == "thread-exit-after-hand-over") { long live = A.live_blocks() - g_live_before_threads; if (live != 0) { viol++; violation("thread-exit:cached-blocks-not-released", ctx + ",\"blocks_still_live\":" + std::to_string(live) + "}"); } }
      // main-thread teardown
      if (g_ring) { delete g_ring; g_ring = nullptr; }
      g_solver.reset();
      if (g_shop_owner) { g_shop_owner->reset(); g_shop_owner = nullptr; } g_shared_op = nullptr;
      SU_vector::clear_mem_cache();
      if (A.errors()) { viol++; violation("threads:" + sc.name + ":ledger:" + A.first_error, ctx + "}"); }
      else if (sc.name != "thread-exit" && sc.name != "thread-exit-after-hand-over" && A.live_blocks()) { viol++; violation("threads:" + sc.name + ":blocks-retained-after-all-threads-ended", ctx + ",\"blocks_still_live\":" + std::to_string(A.live_blocks()) + "}"); }
      A.active = false;
      // results: bit-identical to the sequential schedule (first execution) / to the main thread's values
      std::string why;
      if (sc.name == "shared-solver") { if (!same(g_out, g_expect_query, true, why)) { viol++; violation("threads:shared-solver:result-differs-from-single-thread", ctx + ",\"why\":" + jstr(why) + "}"); } }
      if (!g_have_ref) { g_ref = g_out; g_have_ref = true; }
      else if (!same(g_out, g_ref, true, why)) { viol++; violation("threads:" + sc.name + ":result-depends-on-schedule", ctx + ",\"why\":" + jstr(why) + "}"); }
      std::string o; for (auto& t : g_out) o += std::to_string(ref::fnv(t.data(), t.size() * 8)) + ","; outcomes.insert(o);
      if (!out_of_time && std::chrono::duration<double>(std::chrono::steady_clock::now() - t_start).count() > deadline) { out_of_time = true; ex.max_executions = ex.executions; }
    };
    set_case(sc.name);
    // iterate the bound: 0, 1, .. so that the first counterexample has the fewest preemptions
    for (int b = 0; b <= sc.bound && !out_of_time; b++) { ex.preempt_bound = b; ex.executions = 0; ex.explore_all(); count(fmt("executions:%s:%dthreads:bound=%d", sc.name.c_str(), sc.n, b), ex.executions); total_exec += ex.executions; total_points += ex.points_total; ex.points_total = 0; if (ex.capped) { not_exhaustive(); info("capped", sc.name + fmt(" bound %d", b)); } }
    if (out_of_time) { not_exhaustive(); info("deadline", fmt("%.0f s used up in scenario %s (%d threads)", deadline, sc.name.c_str(), sc.n)); }
    distinct(ref::fnv(sc.name.data(), sc.name.size(), sc.n));
    sample("{\"scenario\":" + jstr(sc.name) + ",\"threads\":" + std::to_string(sc.n) + ",\"preemption_bound\":" + std::to_string(sc.bound) + ",\"executions_at_last_bound\":" + std::to_string(ex.executions) + ",\"distinct_outcomes\":" + std::to_string(outcomes.size()) + "}");
  }
  count("library_calls_modelled_as_non_atomic", opaque::calls);
  count("executions", total_exec); count("states", total_points); count("transitions", total_points); count("evaluations", total_exec);
  finish();
  return 0;
}
#endif
