// C14: mismatched / unsupported dimensions are rejected before any read or write.
// One forked child per case (built with ASan+UBSan): exit 0 = exception thrown and operands intact,
// 10 = no exception, 11 = an operand was modified, anything else = crash / sanitizer report.
#include "bind.hpp"
#include <functional>
#include <sys/wait.h>
#include <unistd.h>
#include <fcntl.h>
using namespace vf;
using squids::iCommutator; using squids::ACommutator; using squids::ElementwiseOperation;

struct Operand {
  std::vector<double> ext, snap; SU_vector v; int d; bool external; double* base;
  // shared != nullptr: this operand is a view of (the beginning of) another operand's user buffer
  Operand(int d_, bool external_, int which, Operand* shared = nullptr) : d(d_), external(external_), base(nullptr) {
    snap = probe(d, which);
    if (shared) { base = shared->base; snap.assign(base, base + d * d); v = SU_vector(d, base); external = true; }
    else if (external) { ext = snap; ext.resize(36 + 8, 12345.678); for (int k = d * d; k < 36; k++) ext[k] = 0.25 * k; snapfull = ext; base = ext.data(); v = SU_vector(d, base); }
    else v = mkvec(d, snap);
  }
  std::vector<double> snapfull;
  bool intact() const {
    if ((int)v.Dim() != d || (int)v.Size() != d * d) return false;
    for (int k = 0; k < d * d; k++) if (!ref::biteq(v[k], snap[k])) return false;
    if (external) { if (&v[0] != base) return false; if (!ext.empty()) for (size_t k = 0; k < ext.size(); k++) if (!ref::biteq(ext[k], snapfull[k])) return false; }
    return true;
  }
};

struct Case { std::string sig, desc; std::function<int()> fn; };
static std::vector<Case> cases;

static int guard(const std::function<void()>& body, const std::function<bool()>& intact) {
  try { body(); } catch (const std::exception&) { return intact() ? 0 : 11; }
  return intact() ? 10 : 12;
}

static double sink;
static void use(const SU_vector& v) { for (unsigned i = 0; i < v.Size(); i++) sink += v[i]; }

static void add_binary_cases() {
  struct Op { const char* name; std::function<void(SU_vector&, SU_vector&)> f; };
  auto sub = [](double x, double y) { return x - 2 * y; };
  std::vector<Op> ops = {
    {"operator+(L,L)", [](SU_vector& a, SU_vector& b) { SU_vector r = a + b; use(r); }},
    {"operator+(L,R)", [](SU_vector& a, SU_vector& b) { SU_vector r = a + std::move(b); use(r); }},
    {"operator+(R,L)", [](SU_vector& a, SU_vector& b) { SU_vector r = std::move(a) + b; use(r); }},
    {"operator+(R,R)", [](SU_vector& a, SU_vector& b) { SU_vector r = std::move(a) + std::move(b); use(r); }},
    {"operator-(L,L)", [](SU_vector& a, SU_vector& b) { SU_vector r = a - b; use(r); }},
    {"operator-(R,L)", [](SU_vector& a, SU_vector& b) { SU_vector r = std::move(a) - b; use(r); }},
    {"operator*(scalar-product)", [](SU_vector& a, SU_vector& b) { sink += a * b; }},
    {"scalar-product(proxy,proxy)", [](SU_vector& a, SU_vector& b) { sink += (2.0 * a) * (3.0 * b); }},
    {"scalar-product(proxy,vector)", [](SU_vector& a, SU_vector& b) { sink += (2.0 * a) * b; }},
    {"scalar-product(vector,proxy)", [](SU_vector& a, SU_vector& b) { sink += a * (-b); }},
    {"scalar-product(sum-proxy,commutator-proxy)", [](SU_vector& a, SU_vector& b) { sink += (a + a) * ACommutator(b, b); }},
    {"scalar-product(rvalue-vector,vector)", [](SU_vector& a, SU_vector& b) { sink += SU_vector(a) * b; }},
    {"SUTrace<0>", [](SU_vector& a, SU_vector& b) { sink += squids::SUTrace<0>(a, b); }},
    {"iCommutator", [](SU_vector& a, SU_vector& b) { SU_vector r = iCommutator(a, b); use(r); }},
    {"ACommutator", [](SU_vector& a, SU_vector& b) { SU_vector r = ACommutator(a, b); use(r); }},
    {"ElementwiseOperation(L,L)", [sub](SU_vector& a, SU_vector& b) { SU_vector r = ElementwiseOperation(sub, a, b); use(r); }},
    {"ElementwiseOperation(R,L)", [sub](SU_vector& a, SU_vector& b) { SU_vector r = ElementwiseOperation(sub, std::move(a), b); use(r); }},
    {"ElementwiseOperation(L,R)", [sub](SU_vector& a, SU_vector& b) { SU_vector r = ElementwiseOperation(sub, a, std::move(b)); use(r); }},
    {"ElementwiseOperation(R,R)", [sub](SU_vector& a, SU_vector& b) { SU_vector r = ElementwiseOperation(sub, std::move(a), std::move(b)); use(r); }},
    {"ElementwiseProduct", [](SU_vector& a, SU_vector& b) { SU_vector r = squids::ElementwiseProduct(a, b); use(r); }},
    {"operator+=(vector)", [](SU_vector& a, SU_vector& b) { a += b; }},
    {"operator-=(vector)", [](SU_vector& a, SU_vector& b) { a -= b; }},
    {"operator+=(proxy)", [](SU_vector& a, SU_vector& b) { a += b * 2.0; }},
    // a guarantee the caller may truthfully give (the operands are distinct objects on distinct storage) does not promise equal sizes
    {"operator+=(guarantee<NoAlias>(proxy))[distinct-storage-only]", [](SU_vector& a, SU_vector& b) { a += squids::detail::guarantee<squids::detail::NoAlias>(b * 2.0); }},
    {"operator-=(guarantee<NoAlias>(commutator))[distinct-storage-only]", [](SU_vector& a, SU_vector& b) { a -= squids::detail::guarantee<squids::detail::NoAlias>(iCommutator(b, b)); }},
    {"operator=(guarantee<NoAlias>(sum))[distinct-storage-only]", [](SU_vector& a, SU_vector& b) { a = squids::detail::guarantee<squids::detail::NoAlias>(a + b); }},
    {"operator+=(guarantee<NoAlias>(evolution))[distinct-storage-only]", [](SU_vector& a, SU_vector& b) { SU_vector h(b.Dim()); a += squids::detail::guarantee<squids::detail::NoAlias>(b.Evolve(h, 0.3)); }},
    {"operator-=(proxy)", [](SU_vector& a, SU_vector& b) { a -= -b; }},
    {"operator+=(rvalue-proxy)", [](SU_vector& a, SU_vector& b) { a += std::move(b) * 2.0; }},
    {"operator-=(rvalue-proxy)", [](SU_vector& a, SU_vector& b) { a -= -std::move(b); }},
    {"operator+=(rvalue-sum-proxy)", [](SU_vector& a, SU_vector& b) { SU_vector c(b); a += std::move(c) + b; }},
    {"operator-=(rvalue-elementwise-proxy)", [](SU_vector& a, SU_vector& b) { SU_vector c(b); a -= squids::ElementwiseProduct(b, std::move(c)); }},
    {"operator+=(function-result-proxy)", [](SU_vector& a, SU_vector& b) { a += SU_vector::Identity(b.Dim()) * 0.5; }},
    {"operator+=(commutator-proxy)", [](SU_vector& a, SU_vector& b) { a += iCommutator(b, b); }},
    {"Evolve(op,t)(construct)", [](SU_vector& a, SU_vector& b) { SU_vector r = a.Evolve(b, 0.7); use(r); }},
    {"Evolve(op,t)(assign-empty)", [](SU_vector& a, SU_vector& b) { SU_vector r; r = a.Evolve(b, 0.7); use(r); }},
    {"Evolve(op,t)(assign-sized)", [](SU_vector& a, SU_vector& b) { SU_vector r(a.Dim()); r = a.Evolve(b, 0.7); use(r); }},
    {"Evolve(op,t)(+=)", [](SU_vector& a, SU_vector& b) { SU_vector r(a.Dim()); r += a.Evolve(b, 0.7); use(r); }},
    {"Evolve(op,t)(-=,op-sized-target)", [](SU_vector& a, SU_vector& b) { SU_vector r(b.Dim()); r -= a.Evolve(b, 0.7); use(r); }},
    {"(a+a).Evolve(b+b,0.7)", [](SU_vector& a, SU_vector& b) { SU_vector r = (a + a).Evolve(b + b, 0.7); use(r); }},
    {"(a+a).Evolve(b+b,0)", [](SU_vector& a, SU_vector& b) { SU_vector r = (a + a).Evolve(b + b, 0.0); use(r); }},
    {"(a+a).Evolve(b+b,-0.0)", [](SU_vector& a, SU_vector& b) { SU_vector r = (a + a).Evolve(b + b, -0.0); use(r); }},
    {"(a*2).Evolve(b,0)", [](SU_vector& a, SU_vector& b) { SU_vector r = (a * 2.0).Evolve(b, 0.0); use(r); }},
    {"a.Evolve(b,0)", [](SU_vector& a, SU_vector& b) { SU_vector r = a.Evolve(b, 0.0); use(r); }},
    {"a.Evolve(-b,0)", [](SU_vector& a, SU_vector& b) { SU_vector r = a.Evolve(-b, 0.0); use(r); }},
    {"Rotate(matrix)", [](SU_vector& a, SU_vector& b) { GslMat U(ref::eye(b.Dim())); SU_vector r = a.Rotate(U.g); use(r); }},
  };
  for (int d1 = 2; d1 <= 6; d1++) for (int d2 = 2; d2 <= 6; d2++) if (d1 != d2)
    for (int ext = 0; ext < 2; ext++) for (auto& op : ops) {
      Case c; c.sig = std::string(op.name) + ":dimension-mismatch"; c.desc = fmt("%s d1=%d d2=%d storage=%s", op.name, d1, d2, ext ? "external" : "own");
      auto f = op.f;
      c.fn = [=]() { Operand a(d1, ext, 0), b(d2, ext, 1); return guard([&]() { f(a.v, b.v); }, [&]() { return a.intact() && b.intact(); }); };
      cases.push_back(c);
      if (!ext) {   // one operand was the source of a move assignment from a vector of the partner's dimension: it is a valid vector of
                    // whatever dimension it reports now, and combining it with a partner of another dimension is still rejected
        Case c3; c3.sig = std::string(op.name) + ":dimension-mismatch:operand-was-moved-from"; c3.desc = fmt("%s operand moved-from (had d=%d, exchanged with d=%d)", op.name, d2, d1);
        c3.fn = [=]() { SU_vector recv = mkvec(d1, probe(d1, 2)), src = mkvec(d2, probe(d2, 1)); recv = std::move(src);   // src now holds whatever recv had
          int ds = (int)src.Dim(); if (ds < 2) return 0;   // left empty: nothing to combine
          for (int k = 0; k < ds * ds; k++) src[k] = 0.25 + k;
          int dp = (ds == d2) ? d1 : d2; if (dp == ds) return 0;
          Operand partner(dp, false, 0); std::vector<double> before = comps(src);
          int r1 = guard([&]() { f(src, partner.v); }, [&]() { return comps(src) == before && partner.intact(); });
          src = mkvec(ds, before);   // (an rvalue form may have consumed it)
          int r2 = guard([&]() { f(partner.v, src); }, [&]() { return comps(src) == before && partner.intact(); });
          return r1 ? r1 : r2; };
        cases.push_back(c3);
      }
      if (ext && !strstr(op.name, "[distinct-storage-only]")) {   // both operands are views of one user buffer (legal: the buffer fits the larger one); start addresses coincide
        Case c2; c2.sig = std::string(op.name) + ":dimension-mismatch:shared-buffer"; c2.desc = fmt("%s d1=%d d2=%d storage=one-shared-user-buffer", op.name, d1, d2);
        c2.fn = [=]() { Operand big(6, true, 2); Operand a(d1, true, 0, &big), b(d2, true, 1, &big); return guard([&]() { f(a.v, b.v); }, [&]() { return a.intact() && b.intact() && big.intact(); }); };
        cases.push_back(c2);
      }
    }
}

static void add_ctor_cases() {
  auto none = []() { return true; };
  for (unsigned d : {1u, 7u, 8u}) {
    auto mk = [&](const char* nm, std::function<void()> body) { Case c; c.sig = std::string(nm) + ":unsupported-dimension"; c.desc = fmt("%s d=%u", nm, d); c.fn = [=]() { return guard(body, none); }; cases.push_back(c); };
    mk("SU_vector(dim)", [=]() { SU_vector v(d); use(v); });
    mk("SU_vector(dim,buffer)", [=]() { std::vector<double> buf(d * d, 1.0); SU_vector v(d, buf.data()); use(v); });
    mk("make_aligned", [=]() { SU_vector v = SU_vector::make_aligned(d); use(v); });
    mk("make_aligned(no-fill)", [=]() { SU_vector v = SU_vector::make_aligned(d, false); sink += v.Dim(); });
    mk("Projector", [=]() { SU_vector v = SU_vector::Projector(d, 0); use(v); });
    mk("Identity", [=]() { SU_vector v = SU_vector::Identity(d); use(v); });
    mk("PosProjector", [=]() { SU_vector v = SU_vector::PosProjector(d, 0); use(v); });
    mk("NegProjector", [=]() { SU_vector v = SU_vector::NegProjector(d, 0); use(v); });
    mk("Generator", [=]() { SU_vector v = SU_vector::Generator(d, 0); use(v); });
  }
  for (unsigned r = 1; r <= 8; r++) for (unsigned cc = 1; cc <= 8; cc++) if (r != cc || r == 1 || r >= 7) {
    Case c; c.sig = r != cc ? "SU_vector(matrix):non-square" : "SU_vector(matrix):unsupported-dimension"; c.desc = fmt("SU_vector(gsl_matrix %ux%u)", r, cc);
    c.fn = [=]() { return guard([=]() { gsl_matrix_complex* m = gsl_matrix_complex_calloc(r, cc); struct F { gsl_matrix_complex* m; ~F() { gsl_matrix_complex_free(m); } } fr{m}; SU_vector v(m); use(v); }, none); };
    cases.push_back(c);
  }
  // the same shapes as views into a larger block (row stride != number of columns; in particular stride == number of rows)
  for (unsigned r = 1; r <= 7; r++) for (unsigned cc = 1; cc <= 7; cc++) if (r != cc || r == 1 || r >= 7) for (unsigned stride : {r, 8u}) {
    if (stride < cc) continue;
    Case c; c.sig = r != cc ? "SU_vector(matrix-view):non-square" : "SU_vector(matrix-view):unsupported-dimension"; c.desc = fmt("SU_vector(%ux%u view of a block with row stride %u)", r, cc, stride);
    c.fn = [=]() { return guard([=]() { gsl_matrix_complex* m = gsl_matrix_complex_calloc(8, stride); struct F { gsl_matrix_complex* m; ~F() { gsl_matrix_complex_free(m); } } fr{m};
      for (unsigned i = 0; i < 8; i++) for (unsigned j = 0; j < stride; j++) gsl_matrix_complex_set(m, i, j, gsl_complex_rect(i == j ? 1.0 : 0.0, 0));
      gsl_matrix_complex_view vw = gsl_matrix_complex_submatrix(m, 0, 0, r, cc); SU_vector v(&vw.matrix); use(v); }, none); };
    cases.push_back(c);
  }
  for (unsigned len = 0; len <= 64; len++) {
    unsigned rt = (unsigned)std::lround(std::sqrt((double)len)); bool square = rt * rt == len;
    if (len == 0 || (square && rt >= 2 && rt <= 6)) continue;
    Case c; c.sig = square ? "SU_vector(list):unsupported-dimension" : "SU_vector(list):non-square-length"; c.desc = fmt("SU_vector(std::vector<double> of length %u)", len);
    c.fn = [=]() { return guard([=]() { std::vector<double> l(len, 0.5); SU_vector v(l); use(v); }, none); };
    cases.push_back(c);
  }
  for (unsigned d = 2; d <= 6; d++) {
    for (unsigned i = d; i <= d * d + 2; i++) { Case c; c.sig = "Projector:index-out-of-range"; c.desc = fmt("Projector(%u,%u)", d, i); c.fn = [=]() { return guard([=]() { SU_vector v = SU_vector::Projector(d, i); use(v); }, none); }; cases.push_back(c); }
    for (unsigned i = d + 1; i <= d * d + 2; i++) for (int w = 0; w < 2; w++) { Case c; c.sig = std::string(w ? "NegProjector" : "PosProjector") + ":index-out-of-range"; c.desc = fmt("%s(%u,%u)", w ? "NegProjector" : "PosProjector", d, i); c.fn = [=]() { return guard([=]() { SU_vector v = w ? SU_vector::NegProjector(d, i) : SU_vector::PosProjector(d, i); use(v); }, none); }; cases.push_back(c); }
    for (unsigned i = d * d; i <= d * d + 2; i++) { Case c; c.sig = "Generator:index-out-of-range"; c.desc = fmt("Generator(%u,%u)", d, i); c.fn = [=]() { return guard([=]() { SU_vector v = SU_vector::Generator(d, i); use(v); }, none); }; cases.push_back(c); }
  }
}

static std::string summarize(const std::string& err) {
  size_t p = err.find("SUMMARY:");
  if (p != std::string::npos) { std::string s = err.substr(p, err.find('\n', p) - p); std::string out; for (char c : s) out += (c == ' ' || c == '\t') ? '_' : c; size_t q = out.find("_/"); if (q != std::string::npos) { size_t in = out.find("_in_", q); out = out.substr(0, q) + (in != std::string::npos ? out.substr(in) : ""); } return out.substr(0, 120); }
  p = err.find("runtime error:");
  if (p != std::string::npos) return "ubsan";
  return "";
}

int main(int argc, char** argv) {
  Args ar = parse(argc, argv); quiet_gsl();
  add_binary_cases(); add_ctor_cases();
  if (!ar.replay.empty()) {  // run one case in-process, no fork: the replay artefact
    for (auto& c : cases) if (c.desc == ar.replay) { int rc = c.fn(); printf("replay %s -> %d\n", c.desc.c_str(), rc); if (rc != 0) violation(c.sig + (rc == 10 ? ":accepted" : ":operand-modified"), J().str("case", c.desc).str("replay", c.desc).done()); finish(); return 0; }
    fprintf(stderr, "no such case\n"); return 3;
  }
  for (size_t i = 0; i < cases.size(); i++) {
    if ((long long)(i % ar.nshards) != ar.shard) continue;
    Case& c = cases[i];
    count("evaluations"); distinct(ref::fnv(c.desc.data(), c.desc.size()));
    sample_every((long long)i, 397, J().str("case", c.desc).done());
    int pfd[2]; if (pipe(pfd)) return 4;
    fflush(stdout);
    pid_t pid = fork();
    if (pid == 0) { close(pfd[0]); dup2(pfd[1], 2); close(pfd[1]); int rc = c.fn(); _exit(rc); }
    close(pfd[1]);
    std::string err; char buf[4096]; ssize_t n; while ((n = read(pfd[0], buf, sizeof buf)) > 0) err.append(buf, n);
    close(pfd[0]);
    int stt = 0; waitpid(pid, &stt, 0);
    int rc = WIFEXITED(stt) ? WEXITSTATUS(stt) : -WTERMSIG(stt);
    if (rc == 0) { count("rejected_cleanly"); continue; }
    std::string kind = rc == 10 ? "accepted" : (rc == 11 || rc == 12) ? "operand-modified" : "crash";
    std::string sm = kind == "crash" ? summarize(err) : "";
    violation(c.sig + ":" + kind + (sm.empty() ? "" : ":" + sm), J().str("case", c.desc).str("replay", c.desc).i("exit", rc).str("stderr_tail", err.size() > 1500 ? err.substr(err.size() - 1500) : err).done());
  }
  finish();
  return 0;
}
