// C11: averaging PrepareEvolve, LowPassFilter, AvgRampFilter, interval-averaged PrepareEvolve.
#define VF_EARLY
#include "bind.hpp"
using namespace vf;

static long long g_idx = 0;
struct Pair { int j, k; };

// recover the pair order of the evolution buffer from the library itself
static bool bind_pairs(int d, std::vector<Pair>& pairs) {
  const ref::Basis& B = ref::basis(d);
  std::vector<double> E(d); for (int i = 0; i < d; i++) E[i] = 0.37 * std::sqrt(1.0 + 2.3 * i) + 0.011 * i * i;  // all |dE| < pi, pairwise distinct differences
  SU_vector H = mkvec(d, B.proj(ref::diag(E)));
  int np = d * (d - 1) / 2; std::vector<double> buf(2 * np);
  H.PrepareEvolve(buf.data(), 1.0);
  pairs.assign(np, Pair{-1, -1});
  std::vector<int> used(d * d, 0);
  for (int p = 0; p < np; p++) {
    double ph = std::atan2(buf[np + p], buf[p]); int found = 0;
    for (int j = 0; j < d; j++) for (int k = 0; k < d; k++) if (j != k && std::fabs((E[j] - E[k]) - ph) < 1e-9) { pairs[p] = Pair{j, k}; found++; }
    if (found != 1) return false;
    int a = std::min(pairs[p].j, pairs[p].k), b = std::max(pairs[p].j, pairs[p].k);
    if (used[a * d + b]++) return false;
  }
  return true;
}

// a threshold comparison is undecided when the exact phase is within the rounding error of the library's own phase computation
static bool tie(double x, double thr, double slack) { return std::fabs(std::fabs(x) - std::fabs(thr)) <= 1e-12 * (std::fabs(thr) + std::fabs(x)) + slack; }

static void spectrum_cases(int d, const std::vector<double>& E, const std::vector<Pair>& pairs, const Args& ar, const std::vector<double>& T) {
  const ref::Basis& B = ref::basis(d);
  int np = d * (d - 1) / 2;
  maybe_pollute(d, 13);
  SU_vector H = mkvec(d, B.proj(ref::diag(E)));
  double Emax = 0; for (double e : E) Emax = std::max(Emax, std::fabs(e));
  std::vector<double> w(np); for (int p = 0; p < np; p++) w[p] = E[pairs[p].j] - E[pairs[p].k];
  const double SC[] = {0, 0.37, 1.21, 3.3, 1e9, -1.21, 1e300, -3e22};
  std::string ds = ":d=" + std::to_string(d);
  uint64_t hE = hashvec(E, d);
  // (a) averaging overload; the times include ones whose phases exceed 2^53 (the scale may exceed them too)
  std::vector<double> TA = T; if (!ar.reduced) { TA.push_back(4e15); TA.push_back(-2.5e17); TA.push_back(3e20); }
  for (double t : TA) {
    std::vector<double> plain(2 * np); H.PrepareEvolve(plain.data(), t);
    for (double scale : SC) {
      count("evaluations"); { uint64_t h = ref::fnv(&t, 8, hE); h = ref::fnv(&scale, 8, h); if (Emax > 0 && t != 0) distinct(h ^ 1); }
      sample_every(g_idx++, 150001, J().str("entry", "PrepareEvolve(buf,t,scale,avr)").i("d", d).arr("spectrum", E).num("t", t).num("scale", scale).done());
      std::vector<double> buf(2 * np, 7.0); std::vector<bool> avr(np, false), avr2(np, true);
      H.PrepareEvolve(buf.data(), t, scale, avr);
      { std::vector<double> b2(2 * np, -3.0); H.PrepareEvolve(b2.data(), t, scale, avr2); if (avr != avr2 || b2 != buf) violation("PrepareEvolve(avg):depends-on-previous-content" + ds, J().i("d", d).arr("spectrum", E).num("t", t).num("scale", scale).done()); }
      // consumer: Evolve(buffer) with the averaged table multiplies entry (j,k) by CX+iSX of its pair, whatever the table holds
      if (scale != 1e9) { std::vector<double> a = probe(d, 1); Mat A = B.tomat(a), R(d); for (int i = 0; i < d; i++) R(i, i) = A(i, i);
        for (int p = 0; p < np; p++) { cd f(buf[p], buf[np + p]); int j = pairs[p].j, k = pairs[p].k; R(j, k) = A(j, k) * f; R(k, j) = A(k, j) * std::conj(f); }
        SU_vector r = mkvec(d, a).Evolve(buf.data()); double e = maxdiff(comps(r), B.proj(R)); count("evaluations");
        if (!(e <= 64 * d * ref::EPS * maxabs(a))) violation("Evolve(averaged-table):not-entrywise-product" + ds, J().i("d", d).arr("spectrum", E).num("t", t).num("scale", scale).arr("table", buf).num("err", e).done()); }
      for (int p = 0; p < np; p++) {
        double phase = w[p] * t;
        if (tie(phase, scale, 8 * ref::EPS * d * Emax * std::fabs(t))) { count("ties_skipped"); continue; }
        bool want = std::fabs(phase) > std::fabs(scale);
        bool ok = (avr[p] == want);
        if (want) ok = ok && buf[p] == 0 && buf[np + p] == 0;
        else ok = ok && ref::close_ulp(buf[p], plain[p], 2) && ref::close_ulp(buf[np + p], plain[np + p], 2);
        if (!ok) { violation("PrepareEvolve(avg):wrong-pair-treatment" + ds, J().i("d", d).arr("spectrum", E).num("t", t).num("scale", scale).i("pair", p).i("j", pairs[p].j).i("k", pairs[p].k).num("phase", phase).i("flag", avr[p]).num("cos", buf[p]).num("sin", buf[np + p]).num("plain_cos", plain[p]).num("plain_sin", plain[np + p]).done()); break; }
      }
    }
  }
  // (a') the scale placed a few parts in 1e9 above and below each pair's own phase (meaningful where the phases are not exactly
  //      representable coincidences: the incommensurate spectra): only rounding-level ties are undecided
  if (Emax > 0 && std::fabs(E[0] - (std::sqrt(2.0) - 1.7)) < 1e-12) for (double t : {0.37, -2.5, 7.3, 1e3}) {
    std::vector<double> plain(2 * np); H.PrepareEvolve(plain.data(), t);
    for (int q = 0; q < np; q++) for (double eps : {3e-9, -3e-9, 4e-8, -4e-8}) {
      double scale = std::fabs(w[q] * t) * (1 + eps); if (!(scale > 0)) continue;
      count("evaluations"); { uint64_t h = ref::fnv(&t, 8, hE); h = ref::fnv(&scale, 8, h); distinct(h ^ 17); }
      std::vector<double> buf(2 * np, 7.0); std::vector<bool> avr(np, eps > 0);
      H.PrepareEvolve(buf.data(), t, scale, avr);
      for (int p = 0; p < np; p++) {
        double phase = w[p] * t;
        if (tie(phase, scale, 8 * ref::EPS * d * Emax * std::fabs(t))) { count("ties_skipped"); continue; }
        bool want = std::fabs(phase) > std::fabs(scale);
        bool ok = (avr[p] == want) && (want ? (buf[p] == 0 && buf[np + p] == 0) : (ref::close_ulp(buf[p], plain[p], 2) && ref::close_ulp(buf[np + p], plain[np + p], 2)));
        if (!ok) { violation("PrepareEvolve(avg):wrong-pair-treatment:scale-next-to-a-phase" + ds, J().i("d", d).arr("spectrum", E).num("t", t).num("scale", scale).i("pair", p).i("j", pairs[p].j).i("k", pairs[p].k).num("phase", phase).i("flag", avr[p]).done()); break; }
      }
    }
  }
  // (b) filters: read the multiplier of each pair from a buffer of ones
  auto expect_mult = [](double om, double c, double r) -> double {
    om = std::fabs(om); c = std::fabs(c); r = std::fabs(r);
    if (om > c) return 0; if (om > c - r) return (c - om) / r; return 1;
  };
  const double CUT[] = {0, 0.37, 1.21, 3.3, 1e9, -1.21};
  for (double c : CUT) {
    const double RAMP[] = {0, 0.1, 0.5 * c, c, 1.5 * c, -0.25 * c};
    for (double r : RAMP) {
      for (int which = 0; which < 2; which++) {  // 0 LowPassFilter (frequency), 1 AvgRampFilter (phase)
        const std::vector<double> one = {1.0}; const std::vector<double>& TT = which ? T : one;
        for (double t : TT) {
          count("evaluations"); { uint64_t h = ref::fnv(&c, 8, hE); h = ref::fnv(&r, 8, h); h = ref::fnv(&t, 8, h); if (Emax > 0) distinct(h ^ (2 + which)); }
          sample_every(g_idx++, 150001, J().str("entry", which ? "AvgRampFilter" : "LowPassFilter").i("d", d).arr("spectrum", E).num("cutoff", c).num("ramp", r).num("t", t).done());
          std::vector<double> buf(2 * np, 1.0);
          bool threw = false;
          try { if (which) H.AvgRampFilter(buf.data(), t, c, r); else H.LowPassFilter(buf.data(), c, r); } catch (const std::exception&) { threw = true; }
          const char* nm = which ? "AvgRampFilter" : "LowPassFilter";
          if (std::fabs(r) > std::fabs(c)) {
            bool untouched = true; for (double x : buf) if (x != 1.0) untouched = false;
            if (!threw || !untouched) violation(std::string(nm) + ":wide-ramp-not-rejected" + ds, J().i("d", d).num("cutoff", c).num("ramp", r).i("threw", threw).i("untouched", untouched).done());
            continue;
          }
          if (threw) { violation(std::string(nm) + ":valid-ramp-rejected" + ds, J().i("d", d).num("cutoff", c).num("ramp", r).done()); continue; }
          for (int p = 0; p < np; p++) {
            double om = which ? w[p] * t : w[p];
            double slack = 8 * ref::EPS * d * Emax * (which ? std::fabs(t) : 1.0);
            if (r == 0 && tie(om, c, slack)) { count("ties_skipped"); continue; }
            double want = expect_mult(om, c, r);
            double tol = 64 * ref::EPS * (1 + (r != 0 ? (std::fabs(c) + std::fabs(om)) / std::fabs(r) : 0)) + (r != 0 ? slack / std::fabs(r) : 0);
            if (!(std::fabs(buf[p] - want) <= tol) || !(std::fabs(buf[np + p] - want) <= tol)) {
              violation(std::string(nm) + ":wrong-multiplier" + ds, J().i("d", d).arr("spectrum", E).num("cutoff", c).num("ramp", r).num("t", t).i("pair", p).i("j", pairs[p].j).i("k", pairs[p].k).num("omega", om).num("cos_mult", buf[p]).num("sin_mult", buf[np + p]).num("want", want).done());
              break;
            }
          }
        }
      }
    }
  }
  // (b') the same filters with H, cutoff and ramp expressed in another unit (all three scaled by u, times by 1/u): the multipliers
  //      are ratios and must not change -- in particular for units in which every frequency is far below or above 1
  if (Emax > 0 && (std::fabs(E[0] - (std::sqrt(2.0) - 1.7)) < 1e-12 || ((long)(E[0] + 2 * E[1] + 4 * E[d - 1]) % 5 == 0))) for (double u : {1e-17, 1e-21, 1e12, 1e-150, 1e-310}) {
    std::vector<double> Eu(d); for (int i = 0; i < d; i++) Eu[i] = E[i] * u;
    SU_vector Hu = mkvec(d, B.proj(ref::diag(Eu)));
    for (double c : {0.37, 1.21, 3.3, -1.21}) for (double r : {0.0, 0.1, 0.5 * c, c, -0.25 * c}) for (int which = 0; which < 2; which++) {
      double t = which ? 0.7 : 1.0;
      if (which && !std::isfinite(t / u)) continue;   // (the rescaled time itself is not representable)
      count("evaluations"); { uint64_t h = ref::fnv(&c, 8, hE); h = ref::fnv(&r, 8, h); h = ref::fnv(&u, 8, h); distinct(h ^ (40 + which)); }
      std::vector<double> buf(2 * np, 1.0);
      try { if (which) Hu.AvgRampFilter(buf.data(), t / u, c, r); else Hu.LowPassFilter(buf.data(), c * u, r * u); }
      catch (const std::exception&) { violation(std::string(which ? "AvgRampFilter" : "LowPassFilter") + ":valid-ramp-rejected:rescaled-units" + ds, J().i("d", d).num("unit", u).num("cutoff", c).num("ramp", r).done()); continue; }
      for (int p = 0; p < np; p++) {
        double om = which ? w[p] * t : w[p];
        double slack = 8 * ref::EPS * d * Emax * (which ? std::fabs(t) : 1.0);
        if (tie(om, c, slack) || (r != 0 && tie(om, std::fabs(c) - std::fabs(r), slack))) { count("ties_skipped"); continue; }
        double want = expect_mult(om, c, r);
        double tol = 64 * ref::EPS * (1 + (r != 0 ? (std::fabs(c) + std::fabs(om)) / std::fabs(r) : 0)) + (r != 0 ? slack / std::fabs(r) : 0);
        if (u < 1e-300 && !which) { if (r != 0) tol += 64 * d * 4.9406564584124654e-324 / (std::fabs(r) * u); if (tie(om, c, 64 * d * 4.9406564584124654e-324 / u) || tie(om, std::fabs(c) - std::fabs(r), 64 * d * 4.9406564584124654e-324 / u)) { count("ties_skipped"); continue; } }   // subnormal frequencies carry an absolute error of a few subnormal ulps
        if (!(std::fabs(buf[p] - want) <= tol) || !(std::fabs(buf[np + p] - want) <= tol)) {
          violation(std::string(which ? "AvgRampFilter" : "LowPassFilter") + ":wrong-multiplier:rescaled-units" + ds, J().i("d", d).arr("spectrum", E).num("unit", u).num("cutoff", c).num("ramp", r).i("pair", p).num("omega", om).num("cos_mult", buf[p]).num("sin_mult", buf[np + p]).num("want", want).done());
          break;
        }
      }
    }
  }
  // (b'') a ramp wider than the cutoff is rejected whatever the magnitudes (squares of the two may leave the double range)
  if (Emax > 0 && (std::fabs(E[0] - (std::sqrt(2.0) - 1.7)) < 1e-12 || ((long)(E[0] + 2 * E[1] + 4 * E[d - 1]) % 5 == 0))) {
    const double CR[][2] = {{1e-170, 1e-165}, {0.0, 1e-170}, {1e160, 1e200}, {-1e-200, 3e-180}, {1e154, -1.0000001e154}, {5e-324, 1e-323}};
    for (auto& cr : CR) for (int which = 0; which < 2; which++) {
      count("evaluations"); { uint64_t h = ref::fnv(cr, sizeof cr, hE); distinct(h ^ (60 + which)); }
      std::vector<double> buf(2 * np, 1.0); bool threw = false;
      try { if (which) H.AvgRampFilter(buf.data(), 0.7, cr[0], cr[1]); else H.LowPassFilter(buf.data(), cr[0], cr[1]); } catch (const std::exception&) { threw = true; }
      bool untouched = true; for (double x : buf) if (x != 1.0) untouched = false;
      if (!threw || !untouched) violation(std::string(which ? "AvgRampFilter" : "LowPassFilter") + ":wide-ramp-not-rejected:extreme-magnitudes" + ds, J().i("d", d).num("cutoff", cr[0]).num("ramp", cr[1]).i("threw", threw).i("untouched", untouched).done());
    }
  }
  // (c') "every table entry is finite for finite inputs": spectra and intervals whose products (level x time, width of the interval)
  //      overflow although every argument is finite
  if (Emax > 0 && (std::fabs(E[0] - (std::sqrt(2.0) - 1.7)) < 1e-12 || ((long)(E[0] + 2 * E[1] + 4 * E[d - 1]) % 5 == 0))) {
    const double CASES[][3] = {{1e160, 1e150, 3e150}, {1e10, -2e300, -1e300}, {1.0, 1e308, 1.5e308}, {1.0, -1.5e308, 1.5e308}, {1e300, 1e10, 2e10}, {1e-300, -1e308, 1e308}};
    for (auto& cs : CASES) {
      std::vector<double> Eu(d); for (int i = 0; i < d; i++) Eu[i] = E[i] * cs[0];
      SU_vector Hu = mkvec(d, B.proj(ref::diag(Eu)));
      std::vector<double> buf(2 * np, 5.0);
      count("evaluations"); { uint64_t h = ref::fnv(cs, sizeof cs, hE); distinct(h ^ 23); }
      Hu.PrepareEvolve(buf.data(), cs[1], cs[2]);
      bool fin = true; for (double x : buf) if (!std::isfinite(x)) fin = false;
      if (!fin) violation("PrepareEvolve(t0,t1):nonfinite:overflowing-products" + ds, J().i("d", d).arr("spectrum", Eu).num("t0", cs[1]).num("t1", cs[2]).arr("buffer", buf).done());
    }
  }
  // (c) interval average
  const double IV[][2] = {{0, 1}, {-1, 2}, {0.5, 10}, {0, 1e-3}, {-1.5, 1.5}, {-0.25, 0.25}, {134217728.0, 134217729.0}, {1e6, 1e6 + 0.5}, {-3e5, -3e5 + 2}, {4096, 4096 + 1.0 / 1024}};   // incl. intervals symmetric about 0 (every sine average vanishes exactly)
  std::vector<std::vector<double>> probes = {probe(d, 0), probe(d, 1)};
  for (auto& iv : IV) {
    double t0 = iv[0], t1 = iv[1], range = t1 - t0;
    count("evaluations"); { uint64_t h = ref::fnv(&t0, 8, hE); h = ref::fnv(&t1, 8, h); distinct(h ^ 9); }
    sample_every(g_idx++, 150001, J().str("entry", "PrepareEvolve(buf,t0,t1)").i("d", d).arr("spectrum", E).num("t0", t0).num("t1", t1).done());
    std::vector<double> buf(2 * np, 5.0);
    H.PrepareEvolve(buf.data(), t0, t1);
    bool fin = true; for (double x : buf) if (!std::isfinite(x)) fin = false;
    if (!fin) {
      bool coincident = false; for (int p = 0; p < np; p++) if (w[p] == 0) coincident = true;
      violation(std::string("PrepareEvolve(t0,t1):nonfinite:") + (coincident ? "coincident-levels" : "distinct-levels"), J().i("d", d).arr("spectrum", E).num("t0", t0).num("t1", t1).arr("buffer", buf).done());
      continue;
    }
    bool ok = true;
    std::vector<cd> fac(np);
    for (int p = 0; p < np; p++) {
      double al = w[p];
      // exact average in a form without cancellation: exp(i al tm) * sin(al h)/(al h), tm the midpoint, h the half-width (long double)
      cd f(1, 0);
      if (al != 0) { long double tm = ((long double)t0 + (long double)t1) / 2, hh = ((long double)t1 - (long double)t0) / 2, x = (long double)al * hh, sc = sinl(x) / x, ph = (long double)al * tm; f = cd((double)(cosl(ph) * sc), (double)(sinl(ph) * sc)); }
      fac[p] = f;
      double tmax = std::max(std::fabs(t0), std::fabs(t1));
      // forward error of the average: a few roundings plus the phase uncertainty |delta alpha|*t of levels known to d*eps*Emax
      // (no amplification by 1/(alpha*range): nearly coincident levels and narrow far-away intervals are ordinary inputs)
      double tol = (32 + 8 * std::fabs(al) * tmax + 8 * d * Emax * tmax) * ref::EPS;
      double e = std::max(std::fabs(buf[p] - f.real()), std::fabs(buf[np + p] - f.imag()));
      maxstat("interval_err/tol", e / tol);
      if (!(e <= tol)) { ok = false; violation("PrepareEvolve(t0,t1):wrong-average" + ds, J().i("d", d).arr("spectrum", E).num("t0", t0).num("t1", t1).i("pair", p).i("j", pairs[p].j).i("k", pairs[p].k).num("cos_avg", buf[p]).num("sin_avg", buf[np + p]).num("want_cos", f.real()).num("want_sin", f.imag()).done()); break; }
    }
    if (!ok) continue;
    // consumer: Evolve(buffer) applies the averaged phases entry-wise
    for (auto& a : probes) {
      count("evaluations");
      Mat A = B.tomat(a), R(d);
      for (int i = 0; i < d; i++) R(i, i) = A(i, i);
      for (int p = 0; p < np; p++) { int j = pairs[p].j, k = pairs[p].k; R(j, k) = A(j, k) * fac[p]; R(k, j) = A(k, j) * std::conj(fac[p]); }
      std::vector<double> want = B.proj(R);
      SU_vector r = mkvec(d, a).Evolve(buf.data());
      double e = maxdiff(comps(r), want), tol = 1e-6 * maxabs(a);  // the table itself was checked tightly above; this guards the pairing only
      if (!(e <= tol)) violation("Evolve(interval-buffer):not-time-average" + ds, J().i("d", d).arr("spectrum", E).num("t0", t0).num("t1", t1).arr("A", a).num("err", e).done());
    }
  }
}

int main(int argc, char** argv) {
  Args ar = parse(argc, argv); quiet_gsl();
  bool th = ar.thorough();
  std::vector<double> lev = {0, 1, 2, 4};
  std::vector<double> T = th ? std::vector<double>{0, 0.3, -0.3, 1, -2.5, 7, 1e3, -1e3, 1e-8} : std::vector<double>{0, 0.3, 1, -2.5, 1e3};
  if (ar.reduced) { lev = {0, 1}; T = {0.3, -2.5}; }
  long long caseno = 0;
  for (int d = 2; d <= 6; d++) {
    std::vector<Pair> pairs;
    count("evaluations");
    if (!bind_pairs(d, pairs)) { violation("pair-binding:not-a-bijection:d=" + std::to_string(d), J().i("d", d).done()); continue; }
    { std::vector<double> flat; for (auto& p : pairs) { flat.push_back(p.j); flat.push_back(p.k); } info("pair_order_d" + std::to_string(d), jarr(flat)); }
    size_t L = lev.size(); long long total = 1; for (int i = 0; i < d; i++) total *= (long long)L;
    for (long long code = 0; code < total; code++) {
      if ((caseno++ % ar.nshards) != ar.shard) continue;
      std::vector<double> E(d); long long c = code; for (int i = 0; i < d; i++) { E[i] = lev[c % L]; c /= L; }
      spectrum_cases(d, E, pairs, ar, T);
    }
    std::vector<double> e1(d), e2(d); for (int i = 0; i < d; i++) { e1[i] = std::sqrt(2.0 + 3 * i) - 1.7; e2[i] = 1e-6 * (i * i + 1); }
    if ((caseno++ % ar.nshards) == ar.shard) spectrum_cases(d, e1, pairs, ar, T);
    if ((caseno++ % ar.nshards) == ar.shard) spectrum_cases(d, e2, pairs, ar, T);
  }
  check_early({11});
  finish();
  return 0;
}
