// C09: fused expression evaluation equals naive evaluation for every statement shape.
// Compile-time axes (statement kind x operation overload x guarantee set) are instantiated from templates and
// split over several translation units (-DC09_PART=k -DC09_NPARTS=n); run-time axes (target kind, alias pattern,
// dimension, external-buffer alignment, operand values) are enumerated by the driver in part 0.
#include "bind.hpp"
using namespace vf;
using namespace squids;

#ifndef C09_PART
#define C09_PART 0
#define C09_NPARTS 1
#endif

enum OpId { ADD_LL, ADD_RL, ADD_LR, ADD_RR, SUB_LL, SUB_RL, NEG_L, NEG_R, MULS_L, MULS_R, SMUL_L, SMUL_R, ICOMM, ACOMM, EVOL, FEVOL, EW_LL, EW_RL, EW_LR, EW_RR, SUB_LR, SUB_RR, N_OPS };
enum Kind { K_ASSIGN, K_INC, K_DEC, K_CONSTRUCT, N_KINDS };
static const char* OPNAME[] = {"a+b", "move(a)+b", "a+move(b)", "move(a)+move(b)", "a-b", "move(a)-b", "-a", "-move(a)", "a*s", "move(a)*s", "s*a", "s*move(a)", "iCommutator(a,b)", "ACommutator(a,b)", "a.Evolve(b,t)", "a.Evolve(buffer)",
                               "EW(f,a,b)", "EW(f,move(a),b)", "EW(f,a,move(b))", "EW(f,move(a),move(b))", "a-move(b)", "move(a)-move(b)"};
static const char* KINDNAME[] = {"v = ", "v += ", "v -= ", "SU_vector v("};

struct Env { double s, t; const double* evbuf; };
struct NonComm { double operator()(double x, double y) const { return x - 2 * y; } };

template <int OP> struct Mk;
#define MK(OP, TYPE, EXPR) template <> struct Mk<OP> { typedef TYPE type; static TYPE make(SU_vector& a, SU_vector& b, const Env& e) { (void)b; (void)e; return EXPR; } };
MK(ADD_LL, detail::AdditionProxy, a + b) MK(ADD_RL, detail::AdditionProxy, std::move(a) + b) MK(ADD_LR, detail::AdditionProxy, a + std::move(b)) MK(ADD_RR, detail::AdditionProxy, std::move(a) + std::move(b))
MK(SUB_LL, detail::SubtractionProxy, a - b) MK(SUB_RL, detail::SubtractionProxy, std::move(a) - b) MK(SUB_LR, detail::SubtractionProxy, a - std::move(b)) MK(SUB_RR, detail::SubtractionProxy, std::move(a) - std::move(b))
MK(NEG_L, detail::NegationProxy, -a) MK(NEG_R, detail::NegationProxy, -std::move(a))
MK(MULS_L, detail::MultiplicationProxy, a * e.s) MK(MULS_R, detail::MultiplicationProxy, std::move(a) * e.s)
MK(SMUL_L, detail::MultiplicationProxy, e.s * a) MK(SMUL_R, detail::MultiplicationProxy, e.s * std::move(a))
MK(ICOMM, detail::iCommutatorProxy, iCommutator(a, b)) MK(ACOMM, detail::ACommutatorProxy, ACommutator(a, b))
MK(EVOL, detail::EvolutionProxy, a.Evolve(b, e.t)) MK(FEVOL, detail::FastEvolutionProxy, a.Evolve(e.evbuf))
MK(EW_LL, detail::BinaryElementwiseOpProxy<NonComm>, ElementwiseOperation(NonComm(), a, b)) MK(EW_RL, detail::BinaryElementwiseOpProxy<NonComm>, ElementwiseOperation(NonComm(), std::move(a), b))
MK(EW_LR, detail::BinaryElementwiseOpProxy<NonComm>, ElementwiseOperation(NonComm(), a, std::move(b))) MK(EW_RR, detail::BinaryElementwiseOpProxy<NonComm>, ElementwiseOperation(NonComm(), std::move(a), std::move(b)))

typedef void (*StmtFn)(SU_vector* v, void* raw, SU_vector& a, SU_vector& b, const Env& e);

template <int KIND, int OP, unsigned FLAGS> struct Stmt {
  static void run(SU_vector* v, void* raw, SU_vector& a, SU_vector& b, const Env& e) {
    if (KIND == K_CONSTRUCT) { new (raw) SU_vector(Mk<OP>::make(a, b, e)); return; }
    if (FLAGS == 0) { if (KIND == K_ASSIGN) *v = Mk<OP>::make(a, b, e); else if (KIND == K_INC) *v += Mk<OP>::make(a, b, e); else *v -= Mk<OP>::make(a, b, e); }
    else { if (KIND == K_ASSIGN) *v = detail::guarantee<FLAGS>(Mk<OP>::make(a, b, e)); else if (KIND == K_INC) *v += detail::guarantee<FLAGS>(Mk<OP>::make(a, b, e)); else *v -= detail::guarantee<FLAGS>(Mk<OP>::make(a, b, e)); }
  }
};

#if C09_PART == 0
StmtFn g_table[N_KINDS][N_OPS][8];
#else
extern StmtFn g_table[N_KINDS][N_OPS][8];
#endif

template <int OP> static void reg_op() {
#define REGF(F) g_table[K_ASSIGN][OP][F] = &Stmt<K_ASSIGN, OP, F>::run; g_table[K_INC][OP][F] = &Stmt<K_INC, OP, F>::run; g_table[K_DEC][OP][F] = &Stmt<K_DEC, OP, F>::run;
  REGF(0) REGF(1) REGF(2) REGF(3) REGF(4) REGF(5) REGF(6) REGF(7)
  g_table[K_CONSTRUCT][OP][0] = &Stmt<K_CONSTRUCT, OP, 0>::run;
}
#define CAT2(a, b) a##b
#define CAT(a, b) CAT2(a, b)
#define MAYBE(OP) if ((OP) % C09_NPARTS == C09_PART) reg_op<OP>();
// only the operations of this part are instantiated in this translation unit
template <int OP, bool MINE> struct RegIf { static void go() {} };
template <int OP> struct RegIf<OP, true> { static void go() { reg_op<OP>(); } };
#define REG(OP) RegIf<OP, (OP % C09_NPARTS) == C09_PART>::go();
void CAT(c09_register_part, C09_PART)() {
  REG(ADD_LL) REG(ADD_RL) REG(ADD_LR) REG(ADD_RR) REG(SUB_LL) REG(SUB_RL) REG(NEG_L) REG(NEG_R) REG(MULS_L) REG(MULS_R) REG(SMUL_L) REG(SMUL_R) REG(ICOMM) REG(ACOMM) REG(EVOL) REG(FEVOL) REG(EW_LL) REG(EW_RL) REG(EW_LR) REG(EW_RR) REG(SUB_LR) REG(SUB_RR)
}


#if C09_PART == 0
// ------------------------------------------------------------------ driver
#define DECLP(k) void c09_register_part##k();
DECLP(1) DECLP(2) DECLP(3) DECLP(4) DECLP(5) DECLP(6) DECLP(7) DECLP(8) DECLP(9) DECLP(10) DECLP(11) DECLP(12) DECLP(13) DECLP(14) DECLP(15)

static bool op_unary(int op) { return op == NEG_L || op == NEG_R || op == MULS_L || op == MULS_R || op == SMUL_L || op == SMUL_R || op == FEVOL; }
static bool op_rv_a(int op) { return op == ADD_RL || op == ADD_RR || op == SUB_RL || op == NEG_R || op == MULS_R || op == SMUL_R || op == EW_RL || op == EW_RR || op == SUB_RR; }
static bool op_rv_b(int op) { return op == ADD_LR || op == ADD_RR || op == EW_LR || op == EW_RR || op == SUB_LR || op == SUB_RR; }
static bool op_elementwise(int op) { return !(op == ICOMM || op == ACOMM || op == EVOL || op == FEVOL); }

// naive evaluation: lvalue operands, no guarantees, fresh temporary
static SU_vector naive(int op, SU_vector& a, SU_vector& b, const Env& e) {
  switch (op) {
    case ADD_LL: case ADD_RL: case ADD_LR: case ADD_RR: { SU_vector r(a + b); return r; }
    case SUB_LL: case SUB_RL: case SUB_LR: case SUB_RR: { SU_vector r(a - b); return r; }
    case NEG_L: case NEG_R: { SU_vector r(-a); return r; }
    case MULS_L: case MULS_R: { SU_vector r(a * e.s); return r; }
    case SMUL_L: case SMUL_R: { SU_vector r(e.s * a); return r; }
    case ICOMM: { SU_vector r(iCommutator(a, b)); return r; }
    case ACOMM: { SU_vector r(ACommutator(a, b)); return r; }
    case EVOL: { SU_vector r(a.Evolve(b, e.t)); return r; }
    case FEVOL: { SU_vector r(a.Evolve(e.evbuf)); return r; }
    default: { SU_vector r(ElementwiseOperation(NonComm(), a, b)); return r; }
  }
}

enum Target { T_EMPTY, T_OWN_SAME, T_OWN_OTHER, T_EXT_SAME, T_EXT_OTHER, N_TARGETS };
enum Alias { P_NONE, P_V_IS_A, P_V_IS_B, P_V_SHARES_A, P_V_SHARES_B, P_A_IS_B, P_ALL_ONE, P_V_SHARES_A_OFFSETLESS, N_ALIAS };
static const char* TNAME[] = {"empty", "own-same-dim", "own-other-dim", "external-same-dim", "external-other-dim"};
static const char* PNAME[] = {"no-alias", "v-is-a", "v-is-b", "v-and-a-on-one-buffer", "v-and-b-on-one-buffer", "a-is-b", "all-one-object", "v-and-a-on-one-buffer-with-different-dimensions"};

alignas(64) static double g_pool[6][64];
// buffer with ideal (or deliberately non-ideal) alignment for dimension d
static double* extbuf(int which, int d, bool ideal) { double* base = g_pool[which]; int off = (d % 2 == 0) ? (ideal ? 0 : 1) : (ideal ? 3 : 0); return base + off; }

static long long g_idx = 0;

struct CaseDesc { int kind, op; unsigned flags; int target, alias, d; bool ideal; int probeset; int opstore; };   // opstore: 0 both operands self-owned, 1 a externally backed, 2 b externally backed (no aliasing with the target)
static std::string cjson(const CaseDesc& c) { return J().str("statement", std::string(KINDNAME[c.kind]) + OPNAME[c.op] + (c.kind == K_CONSTRUCT ? ")" : "")).i("guarantees", c.flags).str("target", c.kind == K_CONSTRUCT ? "new object" : TNAME[c.target]).str("alias", PNAME[c.alias]).i("d", c.d).i("ideal_alignment", c.ideal).i("probes", c.probeset).i("operand_storage", c.opstore).done(); }

static void run_case(const CaseDesc& c) {
  int d = c.d, n = d * d, dother = (d % 5) + 2; if (dother == d) dother = (d == 2) ? 3 : 2;
  if ((c.probeset & 1) && d >= 4) dother = d - 2;   // "another size" also means a smaller dimension of the same parity (its storage is interchangeable as far as alignment goes)
  const ref::Basis& B = ref::basis(d);
  // operand value sets: 0,1 = dense probes; 2 = special values (scalar 0, time 0, operand a = 0): shortcuts taken for "nothing to do"
  // must still write every component of the target
  Env env; env.s = (c.probeset == 2) ? 0.0 : ((c.probeset == 3) ? -0.0 : -1.75); env.t = (c.probeset == 2) ? 0.0 : 0.6;
  bool unary = op_unary(c.op);
  // operand values
  std::vector<double> av = probe(d, c.probeset % 3), bv = probe(d, (c.probeset + 1) % 3), stale = scaled(probe(d, 2), 0.5);
  if (c.probeset == 3) av.assign(n, 0.0);
  bool b_is_operator = (c.op == EVOL);
  if (b_is_operator) { std::vector<double> e(d); for (int j = 0; j < d; j++) e[j] = 0.7 * j - 0.2 * j * j + 0.1 * c.probeset; bv = B.proj(ref::diag(e)); }
  std::vector<double> evb(d * (d - 1) + 2, 0.0);
  { std::vector<double> e(d); for (int j = 0; j < d; j++) e[j] = 0.5 * j + 0.13 * j * j; SU_vector h = mkvec(d, B.proj(ref::diag(e))); h.PrepareEvolve(evb.data(), c.probeset == 2 ? 0.0 : 0.8); }
  env.evbuf = evb.data();
  // aliasing decides which objects exist
  bool v_is_a = c.alias == P_V_IS_A || c.alias == P_ALL_ONE, v_is_b = c.alias == P_V_IS_B || c.alias == P_ALL_ONE, a_is_b = c.alias == P_A_IS_B || c.alias == P_ALL_ONE;
  bool shares_od = c.alias == P_V_SHARES_A_OFFSETLESS;   // target and first operand are views of one user buffer but of different dimension
  bool shares_a = c.alias == P_V_SHARES_A || shares_od, shares_b = c.alias == P_V_SHARES_B;
  if (v_is_a && b_is_operator && !v_is_b) {}  // v is the state
  if (c.alias == P_ALL_ONE || a_is_b) { if (b_is_operator) av = bv; else bv = av; }
  // storage
  for (int q = 0; q < 6; q++) for (int k = 0; k < 64; k++) g_pool[q][k] = -99.0;
  double* vbuf = extbuf(0, (c.target == T_EXT_OTHER) ? dother : d, c.ideal);
  std::unique_ptr<SU_vector> A, Bv, V;
  bool target_ext = c.target == T_EXT_SAME || c.target == T_EXT_OTHER;
  // operand a
  if (shares_a) { for (int k = 0; k < n; k++) vbuf[k] = av[k]; A.reset(new SU_vector(d, vbuf)); }
  else if (target_ext && v_is_a) { for (int k = 0; k < n; k++) vbuf[k] = av[k]; A.reset(new SU_vector(d, vbuf)); }
  else if (c.opstore == 1) { double* ab = extbuf(1, d, true); for (int k = 0; k < n; k++) ab[k] = av[k]; A.reset(new SU_vector(d, ab)); }
  else A.reset(new SU_vector(mkvec(d, av)));
  // operand b
  SU_vector* bp;
  if (a_is_b) bp = A.get();
  else if (shares_b) { for (int k = 0; k < n; k++) vbuf[k] = bv[k]; Bv.reset(new SU_vector(d, vbuf)); bp = Bv.get(); }
  else if (target_ext && v_is_b && !v_is_a) { for (int k = 0; k < n; k++) vbuf[k] = bv[k]; Bv.reset(new SU_vector(d, vbuf)); bp = Bv.get(); }
  else if (c.opstore == 2) { double* bb = extbuf(2, d, true); for (int k = 0; k < n; k++) bb[k] = bv[k]; Bv.reset(new SU_vector(d, bb)); bp = Bv.get(); }
  else { Bv.reset(new SU_vector(mkvec(d, bv))); bp = Bv.get(); }
  // target
  SU_vector* vp = nullptr; alignas(16) unsigned char raw[sizeof(SU_vector)];
  std::vector<double> vbefore;
  if (c.kind != K_CONSTRUCT) {
    if (v_is_a) vp = A.get(); else if (v_is_b) vp = bp;
    else if (shares_od) { V.reset(new SU_vector(dother, vbuf)); vp = V.get(); }
    else if (shares_a || shares_b) { V.reset(new SU_vector(d, vbuf)); vp = V.get(); }
    else switch (c.target) {
      case T_EMPTY: V.reset(new SU_vector()); break;
      case T_OWN_SAME: V.reset(new SU_vector(mkvec(d, stale))); break;
      case T_OWN_OTHER: V.reset(new SU_vector(mkvec(dother, scaled(probe(dother, 1), 0.25)))); break;
      case T_EXT_SAME: for (int k = 0; k < n; k++) vbuf[k] = stale[k]; V.reset(new SU_vector(d, vbuf)); break;
      case T_EXT_OTHER: { std::vector<double> o = scaled(probe(dother, 1), 0.25); for (int k = 0; k < dother * dother; k++) vbuf[k] = o[k]; V.reset(new SU_vector(dother, vbuf)); } break;
    }
    if (!vp) vp = V.get();
    vbefore = comps(*vp);
  }
  int vdim_before = vp ? (int)vp->Dim() : 0;
  const double* vptr_before = (vp && vp->Size()) ? &(*vp)[0] : nullptr;
  // truth of the guarantees
  bool no_alias = !(v_is_a || v_is_b || shares_a || shares_b);
  bool equal_sizes = vp && vdim_before == d;
  bool aligned = c.ideal || !(target_ext || shares_a || shares_b);   // own storage is always ideally aligned; external only if we placed it so
  if ((c.flags & detail::NoAlias) && !no_alias) return;
  if ((c.flags & detail::EqualSizes) && !equal_sizes) return;
  if ((c.flags & detail::AlignedStorage) && !aligned) return;
  // expected value through naive evaluation on fresh copies
  SU_vector a2 = mkvec(d, comps(*A)), b2 = mkvec(d, comps(*bp));
  std::vector<double> a_before = comps(*A), b_before = comps(*bp);
  SU_vector tmp = naive(c.op, a2, b2, env);
  std::vector<double> tv = comps(tmp), want(n);
  bool expect_throw = false;
  if (c.kind == K_ASSIGN) { if (target_ext && vdim_before != d && !(v_is_a || v_is_b)) expect_throw = true; }
  else if (c.kind == K_INC || c.kind == K_DEC) { if (vdim_before != d) expect_throw = true; }
  bool acc = (c.kind == K_INC || c.kind == K_DEC) && (int)vbefore.size() == n;
  for (int k = 0; k < n; k++) want[k] = (acc && c.kind == K_INC) ? vbefore[k] + tv[k] : ((acc && c.kind == K_DEC) ? vbefore[k] - tv[k] : tv[k]);
  count("evaluations"); count("states"); count("transitions"); count("executions"); count(std::string("shape_cases:") + KINDNAME[c.kind]);
  { uint64_t h = ref::fnv(&c, sizeof c); distinct(h); }
  sample_every(g_idx++, 40009, cjson(c));
  std::string sig_shape = std::string(KINDNAME[c.kind]) + OPNAME[c.op] + ":" + (c.kind == K_CONSTRUCT ? "new" : TNAME[c.target]) + ":" + PNAME[c.alias];
  for (auto& ch : sig_shape) if (ch == ' ') ch = '_';
  set_case(cjson(c));
  // ---- the fused statement ----
  StmtFn fn = g_table[c.kind][c.op][c.flags];
  bool threw = false, wrongtype = false; std::string what;
  try { fn(vp, raw, *A, *bp, env); }
  catch (const std::runtime_error& ex) { threw = true; what = ex.what(); }
  catch (const std::exception& ex) { threw = true; wrongtype = true; what = ex.what(); }
  SU_vector* res = c.kind == K_CONSTRUCT ? reinterpret_cast<SU_vector*>(raw) : vp;
  if (threw != expect_throw) { violation(std::string(expect_throw ? "missing-exception:" : "unexpected-exception:") + sig_shape, "{\"case\":" + cjson(c) + ",\"what\":" + jstr(what) + "}"); if (c.kind == K_CONSTRUCT && !threw) res->~SU_vector(); return; }
  if (threw) {
    if (wrongtype) violation("exception-not-runtime_error:" + sig_shape, "{\"case\":" + cjson(c) + ",\"what\":" + jstr(what) + "}");
    bool same = (int)vp->Dim() == vdim_before && ((vp->Size() ? &(*vp)[0] : nullptr) == vptr_before) && comps(*vp).size() == vbefore.size();
    if (same) { std::vector<double> now = comps(*vp); for (size_t k = 0; k < now.size(); k++) if (!ref::biteq(now[k], vbefore[k])) same = false; }
    if (!same) violation("exception-modified-target:" + sig_shape, "{\"case\":" + cjson(c) + "}");
    if (!(comps(*A) == a_before) || !(comps(*bp) == b_before)) violation("exception-modified-operand:" + sig_shape, "{\"case\":" + cjson(c) + "}");
    return;
  }
  std::vector<double> got = comps(*res);
  bool ok = (int)res->Dim() == d;
  double worst = 0;
  for (int k = 0; ok && k < n; k++) { double abs_extra = 4 * ref::EPS * (std::fabs(acc ? vbefore[k] : 0.0) + std::fabs(tv[k])); if (!ref::close_ulp(got[k], want[k], 2, abs_extra)) ok = false; worst = std::max(worst, std::fabs(got[k] - want[k])); }
  if (!ok) violation("fused-differs-from-naive:" + sig_shape, "{\"case\":" + cjson(c) + ",\"got\":" + jarr(got) + ",\"want\":" + jarr(want) + ",\"a\":" + jarr(a_before) + ",\"b\":" + jarr(b_before) + ",\"v_before\":" + jarr(vbefore) + "}");
  // external targets stay bound to their buffer
  if (c.kind != K_CONSTRUCT && (target_ext || shares_a || shares_b) && !(v_is_a || v_is_b) && &(*vp)[0] != vbuf) violation("external-target-rebound:" + sig_shape, "{\"case\":" + cjson(c) + "}");
  // operands: unchanged unless consumed (rvalue) or aliased with the target
  bool a_alias = v_is_a || shares_a || (a_is_b && (v_is_b || shares_b)), b_alias = v_is_b || shares_b || (a_is_b && (v_is_a || shares_a));
  if (!op_rv_a(c.op) && !a_alias && !(a_is_b && op_rv_b(c.op))) { if (!(comps(*A) == a_before)) violation("operand-a-modified:" + sig_shape, "{\"case\":" + cjson(c) + "}"); }
  if (!unary && !op_rv_b(c.op) && !b_alias && !(a_is_b && op_rv_a(c.op))) { if (!(comps(*bp) == b_before)) violation("operand-b-modified:" + sig_shape, "{\"case\":" + cjson(c) + "}"); }
  // what the result believes about its own storage must agree with where its components live: a vector on a user buffer
  // refuses a size-changing assignment, any other vector accepts it (this is the "only ... externally backed storage ... fails"
  // clause applied to the statement that follows)
  {
    const double* rp = &(*res)[0];
    bool on_user_buffer = rp >= &g_pool[0][0] && rp < &g_pool[0][0] + sizeof(g_pool) / sizeof(double);
    bool refused = false; SU_vector other(mkvec(dother, scaled(probe(dother, 0), 0.5)));
    try { *res = other; } catch (const std::runtime_error&) { refused = true; }
    if (refused != on_user_buffer) violation(std::string(refused ? "own-storage-result-refuses-resize:" : "external-result-silently-detached:") + sig_shape, "{\"case\":" + cjson(c) + "}");
    else if (!refused && !((int)res->Dim() == dother && comps(*res) == comps(other))) violation("follow-up-assignment-wrong-value:" + sig_shape, "{\"case\":" + cjson(c) + "}");
  }
  // storage released by the statement (the target's old block) may be handed out again: every dimension's next allocations must be
  // full-sized blocks of their own (all components written; the sanitizer build sees an undersized one)
  { std::vector<double> keep = comps(*res), ka = comps(*A), kb = comps(*bp);
    { std::vector<SU_vector> fresh; for (int rep = 0; rep < 2; rep++) for (int dd = 2; dd <= 6; dd++) { fresh.emplace_back((unsigned)dd); for (int k = 0; k < dd * dd; k++) fresh.back()[k] = 1e6 + k; } }
    if (!(comps(*res) == keep) || !(comps(*A) == ka) || !(comps(*bp) == kb)) violation("later-allocations-overlap-live-vectors:" + sig_shape, "{\"case\":" + cjson(c) + "}"); }
  if (c.kind == K_CONSTRUCT) res->~SU_vector();
}

int main(int argc, char** argv) {
  Args ar = parse(argc, argv); quiet_gsl(); install_crash_reporter();
  c09_register_part0();
#define CALLP(k) if (C09_NPARTS > k) c09_register_part##k();
#if C09_NPARTS > 1
  CALLP(1) CALLP(2) CALLP(3) CALLP(4) CALLP(5) CALLP(6) CALLP(7)
#endif
#if C09_NPARTS > 8
  CALLP(8) CALLP(9) CALLP(10) CALLP(11) CALLP(12) CALLP(13) CALLP(14) CALLP(15)
#endif
  bool th = ar.thorough();
  std::vector<int> dims = {2, 3, 4, 5, 6};   // every dimension has its own generated kernels
  std::vector<unsigned> flagsets = th ? std::vector<unsigned>{0, 1, 2, 3, 4, 5, 6, 7} : std::vector<unsigned>{0, 7, 1, 2, 4};
  if (ar.reduced) { dims = {2, 3, 4, 5}; flagsets = {0, 7}; }
  long long shapes = 0, caseno = 0;
  for (int kind = 0; kind < N_KINDS; kind++) for (int op = 0; op < N_OPS; op++) for (unsigned fl : flagsets) {
    if (kind == K_CONSTRUCT && fl) continue;
    if (!g_table[kind][op][fl]) { violation("harness:shape-not-instantiated", J().i("kind", kind).i("op", op).i("flags", fl).done()); continue; }
    shapes++;
    bool unary = op_unary(op), rv = op_rv_a(op) || op_rv_b(op);
    for (int alias = 0; alias <= P_V_SHARES_A_OFFSETLESS; alias++) {
      if (alias == P_V_SHARES_A_OFFSETLESS && (kind == K_CONSTRUCT || rv)) continue;
      if (unary && (alias == P_V_IS_B || alias == P_V_SHARES_B || alias == P_A_IS_B || alias == P_ALL_ONE)) continue;
      if ((alias == P_A_IS_B || alias == P_ALL_ONE) && rv) continue;       // the same object is not moved from and read in one expression
      if (kind == K_CONSTRUCT && !(alias == P_NONE || alias == P_A_IS_B)) continue;
      for (int target = 0; target < N_TARGETS; target++) {
        if (kind == K_CONSTRUCT && target != T_EMPTY) continue;
        bool v_is_operand = alias == P_V_IS_A || alias == P_V_IS_B || alias == P_ALL_ONE;
        if (v_is_operand && !(target == T_OWN_SAME || target == T_EXT_SAME)) continue;
        if ((alias == P_V_SHARES_A || alias == P_V_SHARES_B) && target != T_EXT_SAME) continue;
        if (alias == P_V_SHARES_A_OFFSETLESS && target != T_EXT_OTHER) continue;
        for (int d : dims) for (int ideal = 0; ideal < 2; ideal++) for (int ps = 0; ps < 4; ps++) {
          bool uses_ext = target == T_EXT_SAME || target == T_EXT_OTHER;
          if (!uses_ext && ideal == 0) continue;     // alignment of external buffers is only an axis when there is one
          if ((caseno++ % ar.nshards) != ar.shard) continue;
          CaseDesc c; memset(&c, 0, sizeof c); c.kind = kind; c.op = op; c.flags = fl; c.target = target; c.alias = alias; c.d = d; c.ideal = ideal; c.probeset = ps;
          run_case(c);
          if (alias == P_NONE && ps == 0 && !(fl & detail::AlignedStorage)) for (int os = 1; os <= (unary ? 1 : 2); os++) { c.opstore = os; run_case(c); }
        }
      }
    }
  }
  if (ar.shard == 0) count("statement_shapes_instantiated", shapes);
  finish();
  return 0;
}
#endif
