// Reference model for SQuIDS checks: dense complex matrices, the generalised
// Gell-Mann basis in the documented component layout, projection, matrix
// exponential.  Deliberately free of any SQuIDS header: nothing in here can be
// influenced by an edit to /repo.
#pragma once
#include <complex>
#include <vector>
#include <cmath>
#include <cstdint>
#include <cstring>
#include <string>
#include <algorithm>

namespace ref {
typedef std::complex<double> cd;
typedef std::complex<long double> cl;
static const double EPS = 2.220446049250313e-16;

struct Mat {
  int n;
  std::vector<cd> a;
  explicit Mat(int n_ = 0) : n(n_), a((size_t)n_ * n_, cd(0, 0)) {}
  cd& operator()(int i, int j) { return a[(size_t)i * n + j]; }
  const cd& operator()(int i, int j) const { return a[(size_t)i * n + j]; }
};

inline Mat eye(int n) { Mat m(n); for (int i = 0; i < n; i++) m(i, i) = 1; return m; }
inline Mat E(int n, int i, int j) { Mat m(n); m(i, j) = 1; return m; }
inline Mat operator+(const Mat& x, const Mat& y) { Mat r(x.n); for (size_t i = 0; i < r.a.size(); i++) r.a[i] = x.a[i] + y.a[i]; return r; }
inline Mat operator-(const Mat& x, const Mat& y) { Mat r(x.n); for (size_t i = 0; i < r.a.size(); i++) r.a[i] = x.a[i] - y.a[i]; return r; }
inline Mat operator*(cd s, const Mat& x) { Mat r(x.n); for (size_t i = 0; i < r.a.size(); i++) r.a[i] = s * x.a[i]; return r; }
inline Mat operator*(const Mat& x, const Mat& y) {
  int n = x.n; Mat r(n);
  for (int i = 0; i < n; i++) for (int k = 0; k < n; k++) { cd xi = x(i, k); if (xi == cd(0, 0)) continue; for (int j = 0; j < n; j++) r(i, j) += xi * y(k, j); }
  return r;
}
inline Mat dagger(const Mat& x) { Mat r(x.n); for (int i = 0; i < x.n; i++) for (int j = 0; j < x.n; j++) r(j, i) = std::conj(x(i, j)); return r; }
inline Mat transpose(const Mat& x) { Mat r(x.n); for (int i = 0; i < x.n; i++) for (int j = 0; j < x.n; j++) r(j, i) = x(i, j); return r; }
inline Mat realpart(const Mat& x) { Mat r(x.n); for (size_t i = 0; i < r.a.size(); i++) r.a[i] = cd(x.a[i].real(), 0); return r; }
inline Mat imagpart_i(const Mat& x) { Mat r(x.n); for (size_t i = 0; i < r.a.size(); i++) r.a[i] = cd(0, x.a[i].imag()); return r; }  // i*Im(M)
inline cd trace(const Mat& x) { cd t = 0; for (int i = 0; i < x.n; i++) t += x(i, i); return t; }
inline double maxabs(const Mat& x) { double m = 0; for (auto& v : x.a) m = std::max(m, std::abs(v)); return m; }
inline double fro(const Mat& x) { double s = 0; for (auto& v : x.a) s += std::norm(v); return std::sqrt(s); }
inline double norm1(const Mat& x) { double m = 0; for (int j = 0; j < x.n; j++) { double s = 0; for (int i = 0; i < x.n; i++) s += std::abs(x(i, j)); m = std::max(m, s); } return m; }
inline bool finite(const Mat& x) { for (auto& v : x.a) if (!std::isfinite(v.real()) || !std::isfinite(v.imag())) return false; return true; }
inline double hermiticity_defect(const Mat& x) { return maxabs(x - dagger(x)); }
inline Mat diag(const std::vector<double>& e) { int n = (int)e.size(); Mat m(n); for (int i = 0; i < n; i++) m(i, i) = e[i]; return m; }
inline Mat comm(const Mat& a, const Mat& b) { return a * b - b * a; }
inline Mat acomm(const Mat& a, const Mat& b) { return a * b + b * a; }

// The generalised Gell-Mann basis in the component layout the library
// documents (and the property C01 states): slot 0 identity; slot d*i+j with
// i<j the symmetric generator E_ij+E_ji (real part of entry (i,j)); slot d*j+i
// with i<j the antisymmetric generator -iE_ij+iE_ji (imaginary part of entry
// (i,j), sigma_y convention); slot d*l+l, l>=1, the diagonal generator
// sqrt(2/(l(l+1))) (sum_{j<l} E_jj - l E_ll).  Tr(lam_a lam_b)=2 delta_ab for a,b>=1.
inline std::vector<Mat> ggm(int d) {
  std::vector<Mat> lam((size_t)d * d, Mat(d));
  lam[0] = eye(d);
  for (int i = 0; i < d; i++)
    for (int j = i + 1; j < d; j++) {
      Mat s(d); s(i, j) = 1; s(j, i) = 1; lam[(size_t)d * i + j] = s;
      Mat a(d); a(i, j) = cd(0, -1); a(j, i) = cd(0, 1); lam[(size_t)d * j + i] = a;
    }
  for (int l = 1; l < d; l++) {
    Mat m(d); double f = std::sqrt(2.0 / (l * (l + 1.0)));
    for (int j = 0; j < l; j++) m(j, j) = f;
    m(l, l) = -f * l; lam[(size_t)d * l + l] = m;
  }
  return lam;
}

struct Basis {
  int d; std::vector<Mat> lam;
  struct NZ { int i, j; cd v; };
  std::vector<std::vector<NZ>> nz;  // non-zero entries of each generator
  explicit Basis(int d_) : d(d_), lam(ggm(d_)), nz((size_t)d_ * d_) {
    for (int k = 0; k < d * d; k++) for (int i = 0; i < d; i++) for (int j = 0; j < d; j++) if (lam[k](i, j) != cd(0, 0)) nz[k].push_back(NZ{i, j, lam[k](i, j)});
  }
  Mat tomat(const double* c) const { Mat m(d); for (int k = 0; k < d * d; k++) if (c[k] != 0) for (const NZ& e : nz[k]) m(e.i, e.j) += c[k] * e.v; return m; }
  Mat tomat(const std::vector<double>& c) const { return tomat(c.data()); }
  // trace projection: c_0 = Tr M / d, c_k = Re Tr(M lam_k)/2
  std::vector<double> proj(const Mat& M) const {
    std::vector<double> c((size_t)d * d);
    for (int k = 0; k < d * d; k++) { cd t = 0; for (const NZ& e : nz[k]) t += M(e.j, e.i) * e.v; c[k] = t.real() / (k == 0 ? d : 2); }
    return c;
  }
};
inline const Basis& basis(int d) { static Basis* b[8] = {0}; if (!b[d]) b[d] = new Basis(d); return *b[d]; }

// matrix exponential: scaling and squaring with a Taylor series in long double
struct MatL { int n; std::vector<cl> a; explicit MatL(int n_ = 0) : n(n_), a((size_t)n_ * n_) {} cl& operator()(int i, int j) { return a[(size_t)i * n + j]; } const cl& operator()(int i, int j) const { return a[(size_t)i * n + j]; } };
inline MatL mulL(const MatL& x, const MatL& y) { int n = x.n; MatL r(n); for (int i = 0; i < n; i++) for (int k = 0; k < n; k++) { cl xi = x(i, k); for (int j = 0; j < n; j++) r(i, j) += xi * y(k, j); } return r; }
inline Mat expm(const Mat& A) {
  int n = A.n; MatL B(n); long double nrm = 0;
  for (int j = 0; j < n; j++) { long double s = 0; for (int i = 0; i < n; i++) s += std::abs(cl(A(i, j))); nrm = std::max(nrm, s); }
  int sq = 0; long double sc = 1; while (nrm * sc > 0.25L) { sc *= 0.5L; sq++; }
  for (int i = 0; i < n; i++) for (int j = 0; j < n; j++) B(i, j) = cl(A(i, j)) * sc;
  MatL R(n), T(n); for (int i = 0; i < n; i++) { R(i, i) = 1; T(i, i) = 1; }
  for (int k = 1; k <= 40; k++) { T = mulL(T, B); for (auto& v : T.a) v /= (long double)k; for (size_t i = 0; i < R.a.size(); i++) R.a[i] += T.a[i]; }
  for (int s = 0; s < sq; s++) R = mulL(R, R);
  Mat r(n); for (size_t i = 0; i < r.a.size(); i++) r.a[i] = cd((double)R.a[i].real(), (double)R.a[i].imag());
  return r;
}

// ulp distance helpers
inline double ulp_of(double x) { x = std::fabs(x); if (x == 0) return 4.9e-324; int e; std::frexp(x, &e); return std::ldexp(1.0, e - 53); }
inline bool close_ulp(double got, double want, double ulps, double abs_extra = 0) {
  if (got == want) return true;
  if (!std::isfinite(got) || !std::isfinite(want)) return false;
  return std::fabs(got - want) <= ulps * ulp_of(want) + abs_extra;
}
inline bool biteq(double a, double b) { return std::memcmp(&a, &b, sizeof a) == 0; }

inline uint64_t fnv(const void* p, size_t n, uint64_t h = 1469598103934665603ULL) { const unsigned char* c = (const unsigned char*)p; h = (h ^ (h >> 31)) * 0xbf58476d1ce4e5b9ULL + 0x9e3779b97f4a7c15ULL; for (size_t i = 0; i < n; i++) { h ^= c[i]; h *= 1099511628211ULL; } return h ^ (h >> 29); }
}  // namespace ref
