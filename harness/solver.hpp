// Probe solver: a SQuIDS subclass whose five term functions are injective in (node, index, time),
// together with the harness's own dense reference of the same physical problem.
#pragma once
#include "bind.hpp"
#include <SQuIDS/SQuIDS.h>
#include <gsl/gsl_odeiv2.h>

namespace vf {

struct Problem {
  int nx, d, nrho, nsc;
  bool sw[5];          // CoherentRho, NonCoherentRho, OtherRho, GammaScalar, OtherScalar
  int family;          // 0: commuting diagonal operators (time dependent), 1: dense non-commuting, time independent
  double kappa, kappa2;  // time slopes of HI and GammaScalar
  double tscale = 1.0;   // time unit: the same physical problem with time measured in units of 1/tscale (every rate x tscale, evaluated at tscale*t)
  int sw_order = 0;      // order in which the five Set_*Terms calls are made (see Probe::apply_switches)
  double omega(int ix, int ir) const { return 0.7 + 0.31 * ix - 0.23 * ir + 0.05 * ix * ir; }
  double gam(int ix, int ir) const { return 0.11 + 0.07 * ix + 0.05 * ir; }
  double sig(int ix, int ir) const { return 0.4 - 0.15 * ix + 0.22 * ir; }
  double gs(int ix, int is) const { return 0.3 + 0.12 * ix + 0.2 * is; }
  double is_(int ix, int is) const { return 0.25 - 0.1 * ix + 0.17 * is; }
  double dlev(int j) const { return 0.9 * j - 0.2 * j * j; }
  double glev(int j) const { return 0.3 + 0.11 * j; }
  double plev(int j) const { return 0.5 - 0.13 * j + 0.04 * j * j; }
  static Mat herm(int n, int w) { Mat m(n); for (int i = 0; i < n; i++) for (int j = 0; j < n; j++) { cd z(std::cos(1.3 * i + 0.7 * j + w), std::sin(0.4 * i - 1.1 * j + 0.5 * w)); m(i, j) += 0.3 * z; m(j, i) += 0.3 * std::conj(z); } return m; }
  Mat HIm(int ix, int ir, double t) const { return tscale == 1.0 ? HIm_u(ix, ir, t) : cd(tscale, 0) * HIm_u(ix, ir, t * tscale); }
  Mat Gm(int ix, int ir, double t) const { return tscale == 1.0 ? Gm_u(ix, ir, t) : cd(tscale, 0) * Gm_u(ix, ir, t * tscale); }
  Mat Pm(int ix, int ir, double t) const { return tscale == 1.0 ? Pm_u(ix, ir, t) : cd(tscale, 0) * Pm_u(ix, ir, t * tscale); }
  double GSc(int ix, int is, double t) const { return tscale == 1.0 ? GSc_u(ix, is, t) : tscale * GSc_u(ix, is, t * tscale); }
  double ISc(int ix, int is, double t) const { return tscale == 1.0 ? ISc_u(ix, is, t) : tscale * ISc_u(ix, is, t * tscale); }
  Mat HIm_u(int ix, int ir, double t) const {
    if (family == 0) { std::vector<double> e(d); for (int j = 0; j < d; j++) e[j] = omega(ix, ir) * (1 + kappa * t) * dlev(j); return ref::diag(e); }
    return cd(omega(ix, ir), 0) * herm(d, 1);
  }
  Mat Gm_u(int ix, int ir, double t) const {
    if (family == 0) { std::vector<double> e(d); for (int j = 0; j < d; j++) e[j] = gam(ix, ir) * glev(j); return ref::diag(e); }
    return cd(gam(ix, ir), 0) * (herm(d, 4) + cd(1.0, 0) * ref::eye(d));
  }
  Mat Pm_u(int ix, int ir, double t) const { std::vector<double> e(d); for (int j = 0; j < d; j++) e[j] = sig(ix, ir) * plev(j); return ref::diag(e); }
  double GSc_u(int ix, int is, double t) const { return gs(ix, is) * (1 + kappa2 * t); }
  double ISc_u(int ix, int is, double t) const { return is_(ix, is); }
  int size_state() const { return d * d * nrho + nsc; }
  int neq() const { return nx * size_state(); }
  // reference right-hand side on a flat state array (node-major: nrho blocks of d^2 components, then scalars)
  void rhs(double t, const double* y, double* dy) const {
    const ref::Basis& B = ref::basis(d); int ss = size_state(), n = d * d;
    for (int ix = 0; ix < nx; ix++) {
      for (int ir = 0; ir < nrho; ir++) {
        const double* c = y + ix * ss + ir * n; Mat R = B.tomat(c), D(d);
        if (sw[0]) D = D + cd(0, -1) * ref::comm(HIm(ix, ir, t), R);
        if (sw[1]) D = D - ref::acomm(Gm(ix, ir, t), R);
        if (sw[2]) D = D + Pm(ix, ir, t);
        std::vector<double> dc = B.proj(D);
        for (int k = 0; k < n; k++) dy[ix * ss + ir * n + k] = dc[k];
      }
      for (int is = 0; is < nsc; is++) { double s = y[ix * ss + nrho * n + is], v = 0; if (sw[3]) v += -GSc(ix, is, t) * s; if (sw[4]) v += ISc(ix, is, t); dy[ix * ss + nrho * n + is] = v; }
    }
  }
  // closed-form solution for family 0 (requires kappa==0 when sw[2], kappa2==0 when sw[4]); family 1 without source
  std::vector<double> exact(const std::vector<double>& y0, double t0, double t1) const {
    if (tscale != 1.0) { Problem q = *this; q.tscale = 1.0; return q.exact(y0, t0 * tscale, t1 * tscale); }
    const ref::Basis& B = ref::basis(d); int ss = size_state(), n = d * d; double tau = t1 - t0, tq = 0.5 * (t1 * t1 - t0 * t0);
    std::vector<double> y(y0.size());
    for (int ix = 0; ix < nx; ix++) {
      for (int ir = 0; ir < nrho; ir++) {
        Mat R0 = B.tomat(&y0[ix * ss + ir * n]), R(d);
        if (family == 0) {
          for (int j = 0; j < d; j++) for (int k = 0; k < d; k++) {
            cd lam0(0, 0), phase(0, 0);  // lam0: constant decay rate part; phase: integral of the coherent rate
            if (sw[0]) phase = cd(0, -omega(ix, ir) * (dlev(j) - dlev(k)) * (tau + kappa * tq));
            if (sw[1]) lam0 = cd(-gam(ix, ir) * (glev(j) + glev(k)), 0);
            cd src = (sw[2] && j == k) ? cd(sig(ix, ir) * plev(j), 0) : cd(0, 0);
            if (src == cd(0, 0)) R(j, k) = R0(j, k) * std::exp(lam0 * tau + phase);
            else { cd lam = lam0 + (sw[0] ? cd(0, -omega(ix, ir) * (dlev(j) - dlev(k))) : cd(0, 0));  // kappa must be 0 here
              R(j, k) = (std::abs(lam) == 0) ? R0(j, k) + src * tau : R0(j, k) * std::exp(lam * tau) + src / lam * (std::exp(lam * tau) - cd(1, 0)); }
          }
        } else {
          Mat K(d); if (sw[0]) K = K + cd(0, -1) * HIm(ix, ir, 0); if (sw[1]) K = K - Gm(ix, ir, 0);
          Mat Ek = ref::expm(cd(tau, 0) * K); R = Ek * R0 * ref::dagger(Ek);
        }
        std::vector<double> c = B.proj(R); for (int k = 0; k < n; k++) y[ix * ss + ir * n + k] = c[k];
      }
      for (int is = 0; is < nsc; is++) {
        double s0 = y0[ix * ss + nrho * n + is], s;
        double g = sw[3] ? gs(ix, is) : 0.0, io = sw[4] ? is_(ix, is) : 0.0;
        if (io == 0) s = s0 * std::exp(-g * (tau + kappa2 * tq));
        else s = (g == 0) ? s0 + io * tau : s0 * std::exp(-g * tau) + io / g * (1 - std::exp(-g * tau));  // kappa2 must be 0 here
        y[ix * ss + nrho * n + is] = s;
      }
    }
    return y;
  }
  // independent numerical reference: classical RK4 with n steps on the reference rhs
  std::vector<double> rk4(const std::vector<double>& y0, double t0, double t1, int n) const {
    std::vector<double> y = y0, k1(y.size()), k2(y.size()), k3(y.size()), k4(y.size()), tmp(y.size()); double h = (t1 - t0) / n;
    for (int s = 0; s < n; s++) { double t = t0 + s * h;
      rhs(t, y.data(), k1.data()); for (size_t i = 0; i < y.size(); i++) tmp[i] = y[i] + 0.5 * h * k1[i];
      rhs(t + 0.5 * h, tmp.data(), k2.data()); for (size_t i = 0; i < y.size(); i++) tmp[i] = y[i] + 0.5 * h * k2[i];
      rhs(t + 0.5 * h, tmp.data(), k3.data()); for (size_t i = 0; i < y.size(); i++) tmp[i] = y[i] + h * k3[i];
      rhs(t + h, tmp.data(), k4.data()); for (size_t i = 0; i < y.size(); i++) y[i] += h / 6 * (k1[i] + 2 * k2[i] + 2 * k3[i] + k4[i]); }
    return y;
  }
};

struct CallLog { long hi = 0, gr = 0, ir = 0, gsc = 0, isc = 0, pre = 0; double last_pre_t = NAN; std::vector<double> times; const void* last_this = nullptr; };

struct Probe : squids::SQuIDS {
  Problem P; mutable CallLog log;
  Probe() {}
  Probe(const Problem& p, double tini) : squids::SQuIDS(p.nx, p.d, p.nrho, p.nsc, tini), P(p) { apply_switches(); }
  Probe(Probe&& o) : squids::SQuIDS(std::move(o)), P(o.P), log(o.log) {}
  Probe& operator=(Probe&& o) { squids::SQuIDS::operator=(std::move(o)); P = o.P; log = o.log; return *this; }
  void set_switch(int b, bool v) { switch (b) { case 0: Set_CoherentRhoTerms(v); break; case 1: Set_NonCoherentRhoTerms(v); break; case 2: Set_OtherRhoTerms(v); break; case 3: Set_GammaScalarTerms(v); break; default: Set_OtherScalarTerms(v); } }
  // The switches are independent settings: the same final values must give the same behaviour whatever the order of the calls.
  // sw_order 0..4: cyclic order starting at switch k (so every switch is the last one set once); 5..9: the same reversed;
  // 10: everything switched on first, then the target values; 11: the complement first, then the target values in reverse
  static const int N_SW_ORDERS = 12;
  void apply_switches() {
    int o = P.sw_order;
    if (o == 10) for (int b = 0; b < 5; b++) set_switch(b, true);
    if (o == 11) for (int b = 0; b < 5; b++) set_switch(b, !P.sw[b]);
    if (o >= 10) { for (int q = 0; q < 5; q++) { int b = (o == 10) ? q : 4 - q; set_switch(b, P.sw[b]); } return; }
    for (int q = 0; q < 5; q++) { int b = (o < 5) ? (o + q) % 5 : ((o - 5) + 5 - q) % 5; set_switch(b, P.sw[b]); }
  }
  squids::SU_vector HI(unsigned ix, unsigned ir, double t) const override { log.hi++; log.times.push_back(t); log.last_this = this; return mkvec(P.d, ref::basis(P.d).proj(P.HIm(ix, ir, t))); }
  squids::SU_vector GammaRho(unsigned ix, unsigned ir, double t) const override { log.gr++; log.times.push_back(t); log.last_this = this; return mkvec(P.d, ref::basis(P.d).proj(P.Gm(ix, ir, t))); }
  squids::SU_vector InteractionsRho(unsigned ix, unsigned ir, double t) const override { log.ir++; log.times.push_back(t); log.last_this = this; return mkvec(P.d, ref::basis(P.d).proj(P.Pm(ix, ir, t))); }
  double GammaScalar(unsigned ix, unsigned is, double t) const override { log.gsc++; log.times.push_back(t); log.last_this = this; return P.GSc(ix, is, t); }
  double InteractionsScalar(unsigned ix, unsigned is, double t) const override { log.isc++; log.times.push_back(t); log.last_this = this; return P.ISc(ix, is, t); }
  void PreDerive(double t) override { log.pre++; log.last_pre_t = t; log.last_this = this; }
  // flat view of the stored state through the protected members
  void set_flat(const std::vector<double>& y) { int ss = P.size_state(), n = P.d * P.d; for (int ix = 0; ix < P.nx; ix++) { for (int ir = 0; ir < P.nrho; ir++) for (int k = 0; k < n; k++) state[ix].rho[ir][k] = y[ix * ss + ir * n + k]; for (int is = 0; is < P.nsc; is++) state[ix].scalar[is] = y[ix * ss + P.nrho * n + is]; } }
  std::vector<double> get_flat() const { int ss = P.size_state(), n = P.d * P.d; std::vector<double> y(P.neq()); for (int ix = 0; ix < P.nx; ix++) { for (int ir = 0; ir < P.nrho; ir++) for (int k = 0; k < n; k++) y[ix * ss + ir * n + k] = state[ix].rho[ir][k]; for (int is = 0; is < P.nsc; is++) y[ix * ss + P.nrho * n + is] = state[ix].scalar[is]; } return y; }
  squids::SU_vector& rho(int ix, int ir) { return state[ix].rho[ir]; }
  // do the in-step views coincide with the stored state?
  bool views_coincide() const { for (int ix = 0; ix < P.nx; ix++) { for (int ir = 0; ir < P.nrho; ir++) if (&estate[ix].rho[ir][0] != &state[ix].rho[ir][0]) return false; if (P.nsc > 0 && estate[ix].scalar != state[ix].scalar) return false; } return true; }
};

inline std::vector<double> probe_state(const Problem& p, int which) {
  std::vector<double> y(p.neq()); int ss = p.size_state(), n = p.d * p.d;
  for (int ix = 0; ix < p.nx; ix++) { for (int ir = 0; ir < p.nrho; ir++) { std::vector<double> c = probe(p.d, (which + ix + 2 * ir) % 3); for (int k = 0; k < n; k++) y[ix * ss + ir * n + k] = 0.5 * c[k] + 0.05 * ix - 0.03 * ir; } for (int is = 0; is < p.nsc; is++) y[ix * ss + p.nrho * n + is] = 0.8 + 0.3 * ix - 0.45 * is + 0.1 * which; }
  return y;
}

}  // namespace vf
