// C13: factory operators, exhaustive over d=2..6 and all admissible indices.
#include "bind.hpp"
#include <SQuIDS/const.h>
using namespace vf;

static void check_matrix(const char* fac, int d, int k, const SU_vector& v, const Mat& want, bool nontrivial) {
  count("evaluations");
  uint64_t h = ref::fnv(fac, strlen(fac)); h = ref::fnv(&d, sizeof d, h); h = ref::fnv(&k, sizeof k, h);
  if (nontrivial) distinct(h);
  sample_every(st().cnt["evaluations"], 29, J().str("factory", fac).i("d", d).i("index", k).arr("components", comps(v)).done());
  bool ok = (int)v.Dim() == d && (int)v.Size() == d * d;
  double err = INFINITY;
  if (ok) {
    Mat got = refmat(v);                 // reference reconstruction from the components
    Mat got2 = gsl2mat(v.GetGSLMatrix().get());  // and through the library's own conversion
    err = std::max(ref::maxabs(got - want), ref::maxabs(got2 - want));
    if (!(err <= 1e-15)) ok = false;
    maxstat("max_abs_err", err);
  }
  if (!ok) violation(std::string(fac) + ":matrix-mismatch", J().str("factory", fac).i("d", d).i("index", k).num("err", err).arr("components", comps(v)).done());
}

// Allocation failure inside one factory call must not change what ANY later factory call returns (a call that was abandoned half way
// leaves no trace in whatever work space the library keeps). The array allocator is replaced so that the k-th request can be refused.
#include <new>
#include <cstdlib>
static long g_alloc_n = 0, g_fail_at = -1;
void* operator new[](std::size_t n) { if (g_fail_at >= 0 && g_alloc_n++ == g_fail_at) throw std::bad_alloc(); void* p = std::malloc(n ? n : 1); if (!p) throw std::bad_alloc(); return p; }
void operator delete[](void* p) noexcept { std::free(p); }
void operator delete[](void* p, std::size_t) noexcept { std::free(p); }

// Factory calls made while the program's namespace-scope objects are being initialised (a global table of constant
// operators is ordinary use): recorded here, compared in main() with the reference matrices like every other call.
struct EarlyCall { const char* fac; int d, k; std::vector<double> comps; int dim; bool threw; };
static std::vector<EarlyCall> early_calls() {
  std::vector<EarlyCall> r;
  for (int d = 2; d <= 6; d++) {
    auto rec = [&](const char* fac, int k, int which) { EarlyCall e{fac, d, k, {}, 0, false};
      try { SU_vector v = which == 0 ? SU_vector::Identity(d) : which == 1 ? SU_vector::Projector(d, k) : which == 2 ? SU_vector::Generator(d, k) : which == 3 ? SU_vector::PosProjector(d, k) : SU_vector::NegProjector(d, k);
        e.dim = v.Dim(); for (unsigned i = 0; i < v.Size(); i++) e.comps.push_back(v[i]); } catch (...) { e.threw = true; }
      r.push_back(e); };
    rec("Identity", 0, 0);
    for (int i = 0; i < d; i++) { rec("Projector", i, 1); rec("PosProjector", i, 3); rec("NegProjector", i, 4); }
    for (int k = 0; k < d * d; k++) rec("Generator", k, 2);
  }
  return r;
}
static const std::vector<EarlyCall> g_early = early_calls();

// every factory call is preceded by a burst of unrelated library calls (vf::pollute): the factories must not depend on
// anything an earlier call left behind
#define F(call) ((dirty ? pollute(d) : (void)0), (call))
int main(int argc, char** argv) {
  Args a = parse(argc, argv); quiet_gsl();
  for (const EarlyCall& e : g_early) {
    count("evaluations"); count("calls_during_static_initialisation");
    int d = e.d; const ref::Basis& B = ref::basis(d); Mat want(d);
    std::string f = e.fac;
    if (f == "Identity") want = ref::eye(d); else if (f == "Projector") want = ref::E(d, e.k, e.k); else if (f == "Generator") want = B.lam[e.k];
    else for (int i = 0; i < e.k; i++) { if (f == "PosProjector") want(i, i) = 1; else want(d - 1 - i, d - 1 - i) = 1; }
    bool ok = !e.threw && e.dim == d && (int)e.comps.size() == d * d;
    double err = ok ? ref::maxabs(B.tomat(e.comps) - want) : INFINITY;
    if (!(err <= 4e-15)) violation(f + ":matrix-mismatch:called-during-static-initialisation", J().str("factory", e.fac).i("d", d).i("index", e.k).i("threw", e.threw).num("err", err).arr("components", e.comps).done());
  }
  for (int pass = 0; pass < 2; pass++) for (int d = 2; d <= 6; d++) {
    bool dirty = pass == 1;
    const ref::Basis& B = ref::basis(d);
    // Identity
    check_matrix("Identity", d, 0, F(SU_vector::Identity(d)), ref::eye(d), true);
    // Projector
    std::vector<SU_vector> P;
    for (int i = 0; i < d; i++) { P.push_back(F(SU_vector::Projector(d, i))); check_matrix("Projector", d, i, P.back(), ref::E(d, i, i), true); }
    // Generator: bit-exact unit vector
    for (int k = 0; k < d * d; k++) {
      SU_vector g = F(SU_vector::Generator(d, k));
      count("evaluations"); uint64_t h = ref::fnv("Generator", 9); h = ref::fnv(&d, sizeof d, h); h = ref::fnv(&k, sizeof k, h); distinct(h);
      bool ok = (int)g.Dim() == d;
      for (int l = 0; ok && l < d * d; l++) if (!ref::biteq(g[l], l == k ? 1.0 : 0.0)) ok = false;
      if (ok) { Mat m = gsl2mat(g.GetGSLMatrix().get()); if (!(ref::maxabs(m - B.lam[k]) <= 4 * ref::EPS)) ok = false; }
      if (!ok) violation("Generator:not-unit-vector", J().i("d", d).i("index", k).arr("components", comps(g)).done());
    }
    // PosProjector / NegProjector, 0<=k<d; k==d: identity or exception
    std::vector<Mat> pos(d + 1, Mat(d)), neg(d + 1, Mat(d));
    for (int k = 0; k <= d; k++) {
      Mat wp(d), wn(d);
      for (int i = 0; i < k; i++) { wp(i, i) = 1; wn(d - 1 - i, d - 1 - i) = 1; }
      pos[k] = wp; neg[k] = wn;
      if (k < d) {
        check_matrix("PosProjector", d, k, F(SU_vector::PosProjector(d, k)), wp, k > 0);
        check_matrix("NegProjector", d, k, F(SU_vector::NegProjector(d, k)), wn, k > 0);
      } else {
        for (int which = 0; which < 2; which++) {
          const char* nm = which ? "NegProjector" : "PosProjector";
          try { SU_vector v = which ? SU_vector::NegProjector(d, k) : SU_vector::PosProjector(d, k); check_matrix(nm, d, k, v, ref::eye(d), true); }
          catch (const std::exception&) { count("evaluations"); count("index_d_rejected"); }
        }
      }
    }
    // every result is an object of its own: what a caller does to one (in place, or by consuming it as a temporary in an
    // expression) must not show in another result or in what a later call returns
    {
      auto fac = [&](int which, int k) { return which == 0 ? SU_vector::Identity(d) : which == 1 ? SU_vector::Projector(d, k) : which == 2 ? SU_vector::Generator(d, k) : which == 3 ? SU_vector::PosProjector(d, k) : SU_vector::NegProjector(d, k); };
      const char* FN[] = {"Identity", "Projector", "Generator", "PosProjector", "NegProjector"};
      for (int which = 0; which < 5; which++) for (int k : {0, d - 1}) {
        count("evaluations");
        SU_vector r1 = fac(which, k), r2 = fac(which, k);
        std::vector<double> want = comps(r2);
        bool ok = &r1[0] != &r2[0];
        r1 *= 0.5; r1[1] = 7.25; r1 += r2;                                   // in-place use of one result
        { SU_vector s = fac(which, k) * (1.0 / 3); (void)s; }                // a result consumed as a temporary
        { SU_vector s = fac(which, k) - r1; s[0] = -4; }
        { SU_vector t = fac(which, k); t.RotateToB1(squids::Const()); t[d] = 3; SU_vector u = std::move(t) + r1; (void)u; }
        if (!(comps(r2) == want)) ok = false;                                // the other live result is untouched
        SU_vector r3 = fac(which, k);
        if (!(comps(r3) == want)) ok = false;                                // and a later call returns the same operator
        if (!ok) violation(std::string(FN[which]) + ":results-share-state", J().str("factory", FN[which]).i("d", d).i("index", k).arr("later_call", comps(r3)).arr("first_call", want).done());
      }
    }
    // algebraic consequences through the reference product of the *returned* operators
    Mat sum(d);
    for (int i = 0; i < d; i++) {
      Mat Pi = refmat(P[i]); sum = sum + Pi;
      for (int j = 0; j < d; j++) {
        count("evaluations");
        Mat Pj = refmat(P[j]);
        Mat prod = Pi * Pj; Mat want = (i == j) ? Pi : Mat(d);
        if (!(ref::maxabs(prod - want) <= 1e-15)) violation("Projector:idempotence-orthogonality", J().i("d", d).i("i", i).i("j", j).done());
        // and through the library's scalar product: Tr(Pi Pj) = delta_ij
        double tr = P[i] * P[j];
        if (!(std::fabs(tr - (i == j ? 1.0 : 0.0)) <= 1e-15)) violation("Projector:trace-product", J().i("d", d).i("i", i).i("j", j).num("trace", tr).done());
      }
    }
    count("evaluations");
    if (!(ref::maxabs(sum - ref::eye(d)) <= 1e-15)) violation("Projector:completeness", J().i("d", d).done());
    for (int k = 1; k < d; k++) {
      count("evaluations");
      SU_vector s = SU_vector::PosProjector(d, k) + SU_vector::NegProjector(d, d - k);
      double err = ref::maxabs(refmat(s) - ref::eye(d));
      if (!(err <= 1e-15)) violation("PosProjector+NegProjector:not-identity", J().i("d", d).i("k", k).num("err", err).arr("sum", comps(s)).done());
    }
  }
  // ---- every factory call with every one of its allocations refused once; afterwards every factory of every dimension is asked again
  {
    auto fac = [&](int which, int d, int k) { return which == 0 ? SU_vector::Identity(d) : which == 1 ? SU_vector::Projector(d, k) : which == 2 ? SU_vector::Generator(d, k) : which == 3 ? SU_vector::PosProjector(d, k) : SU_vector::NegProjector(d, k); };
    const char* FN[] = {"Identity", "Projector", "Generator", "PosProjector", "NegProjector"};
    auto recheck = [&](const std::string& after) {
      for (int d = 2; d <= 6; d++) { const ref::Basis& B = ref::basis(d);
        for (int k = 0; k < d; k++) { Mat wp(d), wn(d); for (int i = 0; i < k; i++) { wp(i, i) = 1; wn(d - 1 - i, d - 1 - i) = 1; }
          struct { int which; Mat want; } L[] = {{1, ref::E(d, k, k)}, {3, wp}, {4, wn}, {2, B.lam[k * d + k]}, {0, ref::eye(d)}};
          for (auto& l : L) { SU_vector v = fac(l.which, d, l.which == 2 ? k * d + k : k); double err = ref::maxabs(refmat(v) - l.want); count("evaluations");
            if (!(err <= 1e-15)) { violation(std::string(FN[l.which]) + ":matrix-mismatch:after-an-allocation-failure-in-an-earlier-factory-call", J().str("factory", FN[l.which]).i("d", d).i("index", k).str("earlier", after).num("err", err).arr("components", comps(v)).done()); return; } } } }
    };
    for (int which = 0; which < 5; which++) for (int d = 2; d <= 6; d++) for (int k : {0, 1, d - 1}) {
      if (which == 0 && k) continue;
      SU_vector::clear_mem_cache(); g_alloc_n = 0; g_fail_at = 1L << 40; { SU_vector v = fac(which, d, k); (void)v; } long N = g_alloc_n; g_fail_at = -1;
      for (long f = 0; f < N; f++) {
        SU_vector::clear_mem_cache(); g_alloc_n = 0; g_fail_at = f; bool threw = false;
        try { SU_vector v = fac(which, d, k); (void)v; } catch (const std::bad_alloc&) { threw = true; }
        g_fail_at = -1; count("evaluations"); count("allocation_failures_injected_into_factories");
        if (!threw) { violation(std::string(FN[which]) + ":bad_alloc-swallowed", J().i("d", d).i("index", k).i("allocation", f).done()); continue; }
        recheck(fmt("%s(%d,%d) with allocation %ld refused", FN[which], d, k, f));
      }
    }
    SU_vector::clear_mem_cache();
  }
  finish();
  return 0;
}
