// C03: evolution by a diagonal operator: exact conjugation, group law, two-step form.
#define VF_EARLY
#include "bind.hpp"
using namespace vf;

static long long g_idx = 0;

struct Alpha { std::vector<std::vector<double>> vecs; std::vector<Mat> mats; };

static std::vector<double> evolve_ref(const ref::Basis& B, const Mat& A, const std::vector<double>& E, double t) {
  int d = B.d; Mat R(d);
  for (int j = 0; j < d; j++) for (int k = 0; k < d; k++) { double ph = (E[j] - E[k]) * t; R(j, k) = A(j, k) * cd(std::cos(ph), std::sin(ph)); }
  return B.proj(R);
}

static void check_case(int d, const std::vector<double>& E, double t, const Alpha& al, bool extras) {
  const ref::Basis& B = ref::basis(d);
  maybe_pollute(d, 97);
  SU_vector H = mkvec(d, B.proj(ref::diag(E)));
  double Emax = 0; for (double e : E) Emax = std::max(Emax, std::fabs(e));
  // the caller's buffer has a history: PrepareEvolve must overwrite every entry whatever it held before
  std::vector<double> buf(d * (d - 1), 0.73), buf2(d * (d - 1), -5.5);
  H.PrepareEvolve(buf.data(), t); H.PrepareEvolve(buf2.data(), t);
  count("evaluations");
  if (buf != buf2) violation("PrepareEvolve(buf,t):result-depends-on-previous-buffer-content:d=" + std::to_string(d), J().i("d", d).arr("spectrum", E).num("t", t).arr("buffer_prefilled_0.73", buf).arr("buffer_prefilled_-5.5", buf2).done());
  for (size_t ai = 0; ai < al.vecs.size(); ai++) {
    const std::vector<double>& a = al.vecs[ai];
    count("evaluations");
    { uint64_t h = hashvec(E, d); h = ref::fnv(&t, sizeof t, h); h = hashvec(a, h); if (Emax > 0 && t != 0 && maxabs(a) > 0) distinct(h); }
    sample_every(g_idx++, 300007, J().i("d", d).arr("spectrum", E).num("t", t).arr("A", a).done());
    double amag = maxabs(a), tol = (16 + 8 * std::fabs(t) * Emax * d) * ref::EPS * amag;
    std::vector<double> want = evolve_ref(B, al.mats[ai], E, t);
    SU_vector A = mkvec(d, a);
    SU_vector r1 = A.Evolve(H, t);
    std::vector<double> g1 = comps(r1);
    double e1 = maxdiff(g1, want);
    maxstat("direct_err/tol", e1 / tol);
    if ((int)r1.Dim() != d || !(e1 <= tol)) violation("Evolve(H,t):mismatch:d=" + std::to_string(d), J().i("d", d).arr("spectrum", E).num("t", t).arr("A", a).arr("got", g1).arr("want", want).num("err", e1).num("tol", tol).done());
    SU_vector r2 = A.Evolve(buf.data());
    std::vector<double> g2 = comps(r2);
    double e2 = maxdiff(g2, want);
    maxstat("twostep_err/tol", e2 / tol);
    if ((int)r2.Dim() != d || !(e2 <= tol)) violation("PrepareEvolve+Evolve(buffer):mismatch:d=" + std::to_string(d), J().i("d", d).arr("spectrum", E).num("t", t).arr("A", a).arr("got", g2).arr("want", want).num("err", e2).num("tol", tol).done());
    if (ai + 3 >= al.vecs.size() || ai < 2) {   // the evolved vector is a temporary / moved-from / chained result, consumed by construction, by assignment into empty, other-size and same-size targets
      std::vector<std::pair<const char*, std::vector<double>>> got;
      { SU_vector r = SU_vector(A).Evolve(buf.data()); got.push_back({"SU_vector(A).Evolve(buf) [construct]", comps(r)}); }
      { SU_vector c = A; SU_vector r = std::move(c).Evolve(buf.data()); got.push_back({"move(A).Evolve(buf) [construct]", comps(r)}); }
      { SU_vector r; r = SU_vector(A).Evolve(buf.data()); got.push_back({"empty = SU_vector(A).Evolve(buf)", comps(r)}); }
      { SU_vector r(d == 2 ? 3 : 2); r = SU_vector(A).Evolve(buf.data()); got.push_back({"other-size = SU_vector(A).Evolve(buf)", comps(r)}); }
      { SU_vector r(d); r = SU_vector(A).Evolve(buf.data()); got.push_back({"same-size = SU_vector(A).Evolve(buf)", comps(r)}); }
      { SU_vector r = SU_vector(A).Evolve(H, t); got.push_back({"SU_vector(A).Evolve(H,t) [construct]", comps(r)}); }
      { SU_vector r; r = SU_vector(A + A).Evolve(buf.data()); std::vector<double> g = comps(r); for (auto& x : g) x *= 0.5; got.push_back({"SU_vector(A+A).Evolve(buf)/2", g}); }
      { std::vector<double> zb(d * (d - 1)); H.PrepareEvolve(zb.data(), 0.0); SU_vector r = SU_vector(A.Evolve(zb.data())).Evolve(buf.data()); got.push_back({"SU_vector(A.Evolve(buf0)).Evolve(buf) [chained]", comps(r)}); }
      // the evolved vector (and the operator) is an unevaluated expression; chained evolutions
      { SU_vector r = (A + A).Evolve(H, t); std::vector<double> g = comps(r); for (auto& x : g) x *= 0.5; got.push_back({"(A+A).Evolve(H,t)/2", g}); }
      { SU_vector r = (A * 2.0).Evolve(H, t); std::vector<double> g = comps(r); for (auto& x : g) x *= 0.5; got.push_back({"(A*2).Evolve(H,t)/2", g}); }
      { SU_vector r = (-A).Evolve(H, t); std::vector<double> g = comps(r); for (auto& x : g) x = -x; got.push_back({"-(-A).Evolve(H,t)", g}); }
      { SU_vector Z(d); SU_vector r = (A - Z).Evolve(H + Z, t); got.push_back({"(A-0).Evolve(H+0,t)", comps(r)}); }
      { SU_vector r = A.Evolve(H, 0.25 * t).Evolve(H, 0.75 * t); std::vector<double> g = comps(r); double e = maxdiff(g, want); if (!(e <= 3 * tol)) got.push_back({"A.Evolve(H,t/4).Evolve(H,3t/4)", g}); else count("evaluations"); }
      // the evolved vector (or the operator) is a second object viewing the storage the target owns
      { SU_vector rho = A; SU_vector view((unsigned)d, &rho[0]); rho = view.Evolve(H, t); got.push_back({"owner = view_of_owner.Evolve(H,t)", comps(rho)}); }
      { SU_vector rho = A; SU_vector view((unsigned)d, &rho[0]); rho = view.Evolve(buf.data()); got.push_back({"owner = view_of_owner.Evolve(buf)", comps(rho)}); }
      { SU_vector rho = A; SU_vector view((unsigned)d, &rho[0]); view = rho.Evolve(H, t); got.push_back({"view_of_owner = owner.Evolve(H,t)", comps(rho)}); }
      { SU_vector rho = A; SU_vector view((unsigned)d, &rho[0]); rho += view.Evolve(buf.data()); std::vector<double> g = comps(rho); for (int k = 0; k < d * d; k++) g[k] -= a[k]; got.push_back({"owner += view_of_owner.Evolve(buf) (minus owner)", g}); }
      { SU_vector h = H; SU_vector hview((unsigned)d, &h[0]); SU_vector keep = H; h = A.Evolve(hview, t); got.push_back({"h = A.Evolve(view_of_h,t)", comps(h)}); }
      for (auto& g : got) { count("evaluations"); double e = maxdiff(g.second, want); if (!(e <= 2 * tol)) violation(std::string("Evolve:temporary-operand:d=") + std::to_string(d), J().str("form", g.first).i("d", d).arr("spectrum", E).num("t", t).arr("A", a).arr("got", g.second).arr("want", want).num("err", e).done()); }
    }
    if (ai + 3 >= al.vecs.size() || ai == 0) {   // probes and the identity: the result consumed by += / -= into an unrelated vector
      std::vector<double> w0 = probe(d, 2); SU_vector wp = mkvec(d, w0), wm = mkvec(d, w0), wq = mkvec(d, w0);
      wp += A.Evolve(H, t); wm -= A.Evolve(buf.data()); wq += A.Evolve(buf.data());
      std::vector<double> gp = comps(wp), gm = comps(wm), gq = comps(wq); double ep = 0, em = 0, eq = 0;
      for (int k = 0; k < d * d; k++) { ep = std::max(ep, std::fabs(gp[k] - (w0[k] + want[k]))); em = std::max(em, std::fabs(gm[k] - (w0[k] - want[k]))); eq = std::max(eq, std::fabs(gq[k] - (w0[k] + want[k]))); }
      double tol2 = tol + 4 * ref::EPS * (maxabs(w0) + amag); count("evaluations");
      if (!(ep <= tol2) || !(em <= tol2) || !(eq <= tol2)) violation("Evolve:consumed-by-compound-assignment:d=" + std::to_string(d), J().i("d", d).arr("spectrum", E).num("t", t).arr("A", a).arr("w", w0).arr("w+=direct", gp).arr("w-=twostep", gm).num("err+=", ep).num("err-=", em).done());
    }
    if (t == 0) {
      for (int k = 0; k < d * d; k++) if (!(g1[k] == a[k]) || !(g2[k] == a[k])) { violation("Evolve:t=0-not-identity:d=" + std::to_string(d), J().i("d", d).arr("spectrum", E).arr("A", a).arr("direct", g1).arr("twostep", g2).done()); break; }
    }
  }
  if (!extras) return;
  // scalar products of evolved probe pairs are preserved (probes are the last 3 entries)
  size_t n = al.vecs.size();
  for (size_t i = n - 3; i < n; i++) for (size_t j = n - 3; j < n; j++) {
    count("evaluations");
    SU_vector A = mkvec(d, al.vecs[i]), C = mkvec(d, al.vecs[j]);
    double before = A * C;
    SU_vector Ae = A.Evolve(H, t), Ce = C.Evolve(H, t);
    double after = Ae * Ce;
    double tol = (64 + 32 * std::fabs(t) * Emax * d) * d * d * ref::EPS * maxabs(al.vecs[i]) * maxabs(al.vecs[j]);
    if (!(std::fabs(after - before) <= tol)) violation("Evolve:scalar-product-not-preserved:d=" + std::to_string(d), J().i("d", d).arr("spectrum", E).num("t", t).num("before", before).num("after", after).done());
  }
}

// Tr[A(t1) B(t2)] with both factors still unevaluated results of Evolve (same and different operator objects, both forms)
static void check_products(int d, const std::vector<double>& E, const Alpha& al) {
  const ref::Basis& B = ref::basis(d);
  SU_vector H = mkvec(d, B.proj(ref::diag(E))), H2 = H;
  double Emax = 0; for (double e : E) Emax = std::max(Emax, std::fabs(e));
  size_t n = al.vecs.size();
  const double TT[] = {0, 0.3, -2.5, 7};
  for (double t1 : TT) for (double t2 : TT) for (size_t i = n - 3; i < n; i++) {
    size_t j = (i + 1 < n) ? i + 1 : n - 3;
    count("evaluations");
    SU_vector A = mkvec(d, al.vecs[i]), C = mkvec(d, al.vecs[j]);
    Mat A1 = B.tomat(evolve_ref(B, al.mats[i], E, t1)), C2 = B.tomat(evolve_ref(B, al.mats[j], E, t2));
    double want = ref::trace(A1 * C2).real();
    double tol = (64 + 32 * (std::fabs(t1) + std::fabs(t2)) * Emax * d) * d * d * ref::EPS * maxabs(al.vecs[i]) * maxabs(al.vecs[j]);
    std::vector<double> b1(d * (d - 1)), b2(d * (d - 1)); H.PrepareEvolve(b1.data(), t1); H.PrepareEvolve(b2.data(), t2);
    double g[6];
    g[0] = A.Evolve(H, t1) * C.Evolve(H, t2);            // same operator object on both sides
    g[1] = A.Evolve(H, t1) * C.Evolve(H2, t2);           // equal operators, distinct objects
    g[2] = A.Evolve(b1.data()) * C.Evolve(b2.data());
    g[3] = A.Evolve(H, t1) * C.Evolve(b2.data());
    { SU_vector c2 = C.Evolve(H, t2); g[4] = A.Evolve(H, t1) * c2; SU_vector a1 = A.Evolve(H, t1); g[5] = a1 * C.Evolve(H, t2); }
    const char* nm[6] = {"proxy(H,t1)*proxy(H,t2)", "proxy(H,t1)*proxy(H',t2)", "proxy(buf1)*proxy(buf2)", "proxy(H,t1)*proxy(buf2)", "proxy*vector", "vector*proxy"};
    for (int q = 0; q < 6; q++) if (!(std::fabs(g[q] - want) <= tol)) violation(std::string("Evolve:scalar-product-of-unevaluated-results:") + nm[q] + ":d=" + std::to_string(d), J().i("d", d).arr("spectrum", E).num("t1", t1).num("t2", t2).num("got", g[q]).num("want", want).done());
  }
}

static void check_group(int d, const std::vector<double>& E, const std::vector<double>& T, const Alpha& al) {
  const ref::Basis& B = ref::basis(d);
  SU_vector H = mkvec(d, B.proj(ref::diag(E)));
  double Emax = 0; for (double e : E) Emax = std::max(Emax, std::fabs(e));
  size_t n = al.vecs.size();
  for (double t1 : T) for (double t2 : T) for (size_t i = n - 3; i < n; i++) {
    count("evaluations");
    SU_vector A = mkvec(d, al.vecs[i]);
    SU_vector s1 = A.Evolve(H, t1); SU_vector s2 = s1.Evolve(H, t2); SU_vector one = A.Evolve(H, t1 + t2);
    double tol = 3 * (16 + 8 * (std::fabs(t1) + std::fabs(t2)) * Emax * d) * ref::EPS * maxabs(al.vecs[i]);
    double e = maxdiff(comps(s2), comps(one));
    maxstat("group_err/tol", e / tol);
    if (!(e <= tol)) violation("Evolve:group-law:d=" + std::to_string(d), J().i("d", d).arr("spectrum", E).num("t1", t1).num("t2", t2).arr("A", al.vecs[i]).num("err", e).done());
  }
}

int main(int argc, char** argv) {
  Args ar = parse(argc, argv); quiet_gsl();
  bool th = ar.thorough();
  std::vector<double> lev = th ? std::vector<double>{-1, 0, 1, 2.5} : std::vector<double>{-1, 0, 2.5};
  std::vector<double> T = {0, 0.3, -0.3, 1, -2.5, 7, 1e3, -1e3, 1e-8};
  if (ar.reduced) { lev = {0, 1}; T = {0, 0.3, -2.5}; }
  long long caseno = 0;
  for (int d = 2; d <= 6; d++) {
    const ref::Basis& B = ref::basis(d);
    Alpha al;
    for (int k = 0; k < d * d; k++) al.vecs.push_back(unit(d, k));
    for (int w = 0; w < 3; w++) al.vecs.push_back(probe(d, w));
    for (auto& v : al.vecs) al.mats.push_back(B.tomat(v));
    // all spectra over the level alphabet: every degeneracy pattern
    size_t L = lev.size(); long long total = 1; for (int i = 0; i < d; i++) total *= (long long)L;
    for (long long code = 0; code < total; code++) {
      if ((caseno++ % ar.nshards) != ar.shard) continue;
      std::vector<double> E(d); long long c = code; for (int i = 0; i < d; i++) { E[i] = lev[c % L]; c /= L; }
      for (double t : T) check_case(d, E, t, al, true);
      if (code % 7 == 0 || th) check_group(d, E, std::vector<double>{0, 0.3, -2.5, 7}, al);
      if (code % 7 == 0 || th) check_products(d, E, al);
    }
    // "large" and incommensurate spectra
    std::vector<std::vector<double>> special;
    { std::vector<double> e1(d), e2(d), e3(d); for (int i = 0; i < d; i++) { e1[i] = 1e3 * (i + 1) * (i % 2 ? -1 : 1); e2[i] = 1e-6 * (i * i + 1); e3[i] = std::sqrt(2.0 + 3 * i) - 1.7; } special = {e1, e2, e3}; }
    for (auto& E : special) { if ((caseno++ % ar.nshards) != ar.shard) continue; for (double t : T) check_case(d, E, t, al, true); check_group(d, E, T, al); }
    // reciprocal scalings: the evolution depends on the products (E_j-E_k)*t only, so (S*E, t/S) must give what (E, t) gives -- for
    // very small |t| with a very wide spectrum and for very large |t| with a very narrow one
    for (double S : {1e16, 1e-16, 1.152921504606847e18, 1e100, 1e-100, 4e17}) for (int which = 0; which < 2; which++) {
      if ((caseno++ % ar.nshards) != ar.shard) continue;
      std::vector<double> E(d); for (int i = 0; i < d; i++) E[i] = S * (which ? lev[(i * 2 + 1) % lev.size()] + 0.25 * i : std::sqrt(2.0 + 3 * i) - 1.7);
      for (double t : {0.3, -2.5, 1.0, 9e-1, 7.0}) check_case(d, E, t / S, al, false);
    }
  }
  check_early({3});
  finish();
  return 0;
}
