// C02: iCommutator, ACommutator, scalar product against their matrix definitions.
#define VF_EARLY
#include "bind.hpp"
#include <SQuIDS/SQuIDS.h>
using namespace vf;
using squids::iCommutator; using squids::ACommutator; using squids::SUTrace;

struct Tables {  // reference structure constants computed from dense matrices only
  int d, n; std::vector<double> F, D, T;  // F[(a*n+b)*n+c]
  explicit Tables(int d_) : d(d_), n(d_ * d_), F((size_t)n * n * n), D((size_t)n * n * n), T((size_t)n * n) {
    const ref::Basis& B = ref::basis(d);
    for (int a = 0; a < n; a++) for (int b = 0; b < n; b++) {
      Mat ab = B.lam[a] * B.lam[b], ba = B.lam[b] * B.lam[a];
      std::vector<double> f = B.proj(cd(0, 1) * (ab - ba)), g = B.proj(ab + ba);
      for (int c = 0; c < n; c++) { F[((size_t)a * n + b) * n + c] = f[c]; D[((size_t)a * n + b) * n + c] = g[c]; }
      T[(size_t)a * n + b] = ref::trace(ab).real();
    }
  }
};

struct Sparse { std::vector<int> idx; std::vector<double> val; };
static Sparse sparse(const std::vector<double>& c) { Sparse s; for (size_t i = 0; i < c.size(); i++) if (c[i] != 0) { s.idx.push_back((int)i); s.val.push_back(c[i]); } return s; }

static void refops(const Tables& t, const Sparse& a, const Sparse& b, std::vector<double>& ic, std::vector<double>& ac, double& tr) {
  ic.assign(t.n, 0.0); ac.assign(t.n, 0.0); tr = 0;
  for (size_t i = 0; i < a.idx.size(); i++) for (size_t j = 0; j < b.idx.size(); j++) {
    double w = a.val[i] * b.val[j]; const double* f = &t.F[((size_t)a.idx[i] * t.n + b.idx[j]) * t.n]; const double* g = &t.D[((size_t)a.idx[i] * t.n + b.idx[j]) * t.n];
    for (int c = 0; c < t.n; c++) { ic[c] += w * f[c]; ac[c] += w * g[c]; }
    tr += w * t.T[(size_t)a.idx[i] * t.n + b.idx[j]];
  }
}

static long long g_idx = 0;
static void check_pair(const Tables& t, const std::vector<double>& a, const std::vector<double>& b, const char* cls, bool all_entry_points) {
  int d = t.d, n = t.n;
  maybe_pollute(d, 997);
  count("evaluations");
  if (maxabs(a) > 0 && maxabs(b) > 0) { uint64_t h = hashvec(a, d); distinct(hashvec(b, h)); }
  sample_every(g_idx++, 200003, J().str("class", cls).i("d", d).arr("a", a).arr("b", b).done());
  std::vector<double> ic, ac; double tr;
  refops(t, sparse(a), sparse(b), ic, ac, tr);
  SU_vector va = mkvec(d, a), vb = mkvec(d, b);
  // rounding proportional to |A||B|, plus the underflow term: a kernel may scale one operand's components by its constants before
  // multiplying by the other operand, and on subnormal components that step has an absolute error of one subnormal ulp
  const double TRUE_MIN = 4.9406564584124654e-324;
  double scale = maxabs(a) * maxabs(b), uf = 64.0 * d * d * TRUE_MIN * std::max(maxabs(a), maxabs(b)), tol = 64 * d * ref::EPS * scale + uf;
  auto cmp = [&](const char* op, const SU_vector& r, const std::vector<double>& want) {
    std::vector<double> got = comps(r);
    double e = maxdiff(got, want);
    if (scale > 0) maxstat(std::string(op) + "_err/tol", e / tol);
    if ((int)r.Dim() != d || !(e <= tol)) violation(std::string(op) + ":mismatch:d=" + std::to_string(d) + ":" + cls, J().i("d", d).arr("a", a).arr("b", b).arr("got", got).arr("want", want).num("err", e).num("tol", tol).done());
  };
  { SU_vector r(iCommutator(va, vb)); cmp("iCommutator", r, ic); }
  { SU_vector r(ACommutator(va, vb)); cmp("ACommutator", r, ac); }
  // same object on both sides (operands are const references)
  if (&a == &b || a == b) { SU_vector r(iCommutator(va, va)); std::vector<double> z(n, 0.0); std::vector<double> g = comps(r); double e = maxdiff(g, z); if (!(e <= tol)) violation("iCommutator(a,a):nonzero:d=" + std::to_string(d), J().i("d", d).arr("a", a).arr("got", g).done());
    SU_vector q(ACommutator(va, va)); double e2 = maxdiff(comps(q), ac); if (!(e2 <= tol)) violation("ACommutator(a,a):mismatch:d=" + std::to_string(d), J().i("d", d).arr("a", a).done());
    double t2 = va * va; if (!(std::fabs(t2 - tr) <= 64 * d * d * ref::EPS * scale)) violation("operator*(a,a):trace-mismatch:d=" + std::to_string(d), J().i("d", d).arr("a", a).num("got", t2).num("want", tr).done()); }
  double got = va * vb;
  double ttol = 64 * d * d * ref::EPS * scale + uf;
  if (scale > 0) maxstat("trace_err/tol", std::fabs(got - tr) / ttol);
  if (!(std::fabs(got - tr) <= ttol)) violation(std::string("operator*:trace-mismatch:d=") + std::to_string(d) + ":" + cls, J().i("d", d).arr("a", a).arr("b", b).num("got", got).num("want", tr).done());
  if (all_entry_points) {
    // assignment into an existing vector with stale content; += onto known content
    SU_vector r = mkvec(d, probe(d, 2)); r = iCommutator(va, vb); cmp("iCommutator(assign)", r, ic);
    SU_vector s = mkvec(d, probe(d, 1)); s = ACommutator(va, vb); cmp("ACommutator(assign)", s, ac);
    std::vector<double> z(n, 0.0);
    SU_vector u = mkvec(d, z); u += iCommutator(va, vb); cmp("iCommutator(+=)", u, ic);
    SU_vector w = mkvec(d, z); w += ACommutator(va, vb); cmp("ACommutator(+=)", w, ac);
    { // guarantee wrappers the caller may truthfully give: EqualSizes alone when the destination is an operand, all three otherwise
      using namespace squids::detail;
      SU_vector A1 = va; A1 = guarantee<EqualSizes>(iCommutator(A1, vb)); cmp("A=guarantee<EqualSizes>(iCommutator(A,B))", A1, ic);
      SU_vector B1 = vb; B1 = guarantee<EqualSizes>(ACommutator(va, B1)); cmp("B=guarantee<EqualSizes>(ACommutator(A,B))", B1, ac);
      SU_vector A2 = va; A2 += guarantee<EqualSizes>(iCommutator(A2, vb)); std::vector<double> w1(n); for (int k = 0; k < n; k++) w1[k] = a[k] + ic[k];
      { std::vector<double> g = comps(A2); double e = maxdiff(g, w1); if (!(e <= tol + 4 * ref::EPS * maxabs(a))) violation("A+=guarantee<EqualSizes>(iCommutator(A,B)):mismatch:d=" + std::to_string(d), J().i("d", d).arr("a", a).arr("b", b).arr("got", g).arr("want", w1).done()); }
      SU_vector B2 = vb; B2 -= guarantee<EqualSizes>(ACommutator(va, B2)); std::vector<double> w2(n); for (int k = 0; k < n; k++) w2[k] = b[k] - ac[k];
      { std::vector<double> g = comps(B2); double e = maxdiff(g, w2); if (!(e <= tol + 4 * ref::EPS * maxabs(b))) violation("B-=guarantee<EqualSizes>(ACommutator(A,B)):mismatch:d=" + std::to_string(d), J().i("d", d).arr("a", a).arr("b", b).arr("got", g).arr("want", w2).done()); }
      SU_vector C1 = mkvec(d, probe(d, 0)); C1 = guarantee<NoAlias | EqualSizes>(iCommutator(va, vb)); cmp("C=guarantee<NoAlias|EqualSizes>(iCommutator(A,B))", C1, ic);
      SU_vector C2 = mkvec(d, probe(d, 0)); C2 = guarantee<NoAlias | EqualSizes>(ACommutator(va, vb)); cmp("C=guarantee<NoAlias|EqualSizes>(ACommutator(A,B))", C2, ac);
    }
    { // an operand is a second object viewing the storage the destination owns
      SU_vector T1 = va; SU_vector v1((unsigned)d, &T1[0]); T1 = iCommutator(v1, vb); cmp("owner=iCommutator(view_of_owner,B)", T1, ic);
      SU_vector T2 = vb; SU_vector v2((unsigned)d, &T2[0]); T2 = ACommutator(va, v2); cmp("owner=ACommutator(A,view_of_owner)", T2, ac);
      SU_vector T3 = va; SU_vector v3((unsigned)d, &T3[0]); v3 = iCommutator(T3, vb); cmp("view_of_owner=iCommutator(owner,B)", T3, ic);
    }
    { // operands on user storage at every offset (in doubles) from a 32-byte boundary, either side
      alignas(64) static double pool[2][48];
      for (int oa = 0; oa < 4; oa++) for (int ob = 0; ob < 4; ob += 3) {
        for (int k = 0; k < n; k++) { pool[0][oa + k] = a[k]; pool[1][ob + k] = b[k]; }
        SU_vector ea((unsigned)d, pool[0] + oa), eb((unsigned)d, pool[1] + ob);
        double g1 = ea * eb, g2 = eb * ea, g3 = ea * vb, g4 = va * eb, g5 = SUTrace<0>(ea, eb);
        if (!(std::fabs(g1 - tr) <= ttol && std::fabs(g2 - tr) <= ttol && std::fabs(g3 - tr) <= ttol && std::fabs(g4 - tr) <= ttol && std::fabs(g5 - tr) <= ttol))
          violation("operator*:trace-mismatch:external-operand-offset:d=" + std::to_string(d), J().i("d", d).i("offset_a", oa).i("offset_b", ob).arr("a", a).arr("b", b).arr("got", std::vector<double>{g1, g2, g3, g4, g5}).num("want", tr).done());
        SU_vector r1(iCommutator(ea, eb)); cmp("iCommutator(external-operands)", r1, ic); SU_vector r2(ACommutator(ea, eb)); cmp("ACommutator(external-operands)", r2, ac);
      }
    }
    double t0 = SUTrace<0>(va, vb);
    if (!ref::biteq(t0, got) && !(std::fabs(t0 - got) <= ttol)) violation("SUTrace<0>:differs-from-operator*", J().i("d", d).arr("a", a).arr("b", b).done());
    SU_vector aa = SU_vector::make_aligned(d), ab = SU_vector::make_aligned(d);
    for (int k = 0; k < n; k++) { aa[k] = a[k]; ab[k] = b[k]; }
    double t1 = SUTrace<squids::detail::AlignedStorage>(aa, ab);
    if (!(std::fabs(t1 - tr) <= ttol)) violation("SUTrace<AlignedStorage>:trace-mismatch:d=" + std::to_string(d), J().i("d", d).arr("a", a).arr("b", b).num("got", t1).num("want", tr).done());
  }
}

// a solver whose evolution the adaptive controller must refuse (minimum step far too coarse for the tolerance): an ordinary,
// caught failure elsewhere in the program must not change what the algebra returns afterwards
struct Refuser : squids::SQuIDS {
  int d;
  explicit Refuser(int d_) : squids::SQuIDS(1, d_, 1, 0, 0.0), d(d_) { Set_CoherentRhoTerms(true); Set_GSL_step(gsl_odeiv2_step_msadams); Set_rel_error(1e-12); Set_abs_error(1e-12); Set_h(1e-3); Set_h_min(1e-3); for (int k = 0; k < d * d; k++) state[0].rho[0][k] = 0.3 + 0.1 * k; }
  squids::SU_vector HI(unsigned, unsigned, double t) const override { SU_vector h = mkvec(d, probe(d, 1)); return h * (5.0 + t); }
};

int main(int argc, char** argv) {
  Args ar = parse(argc, argv); quiet_gsl();
  bool th = ar.thorough();
  for (int d = 2; d <= 6; d++) {
    Tables t(d); int n = d * d;
    // every ordered basis pair: reads every structure constant
    for (int a = 0; a < n; a++) for (int b = 0; b < n; b++) check_pair(t, unit(d, a), unit(d, b), "basis-pair", true);
    if (ar.reduced) continue;
    // bilinearity on two-hot x two-hot
    if (th || d <= 4) {
      const double co[2][4] = {{1.0, 2.0, -0.5, 3.0}, {-1.25, 0.75, 2.0, 1.0}};
      for (int cs = 0; cs < 2; cs++)
        for (int i = 0; i < n; i++) for (int j = i + 1; j < n; j++) { std::vector<double> a = twohot(d, i, j, co[cs][0], co[cs][1]);
          for (int k = 0; k < n; k++) for (int l = k + 1; l < n; l++) check_pair(t, a, twohot(d, k, l, co[cs][2], co[cs][3]), "two-hot-pair", false); }
    } else {  // quick, d=5,6: two-hot against every basis vector
      for (int i = 0; i < n; i++) for (int j = i + 1; j < n; j++) { std::vector<double> a = twohot(d, i, j, 1.0, 2.0); for (int k = 0; k < n; k++) { check_pair(t, a, unit(d, k), "two-hot-x-basis", false); check_pair(t, unit(d, k), a, "basis-x-two-hot", false); } }
    }
    // probes incl. extreme scalings
    std::vector<std::vector<double>> P;
    for (int w = 0; w < 3; w++) { P.push_back(probe(d, w)); P.push_back(scaled(probe(d, w), 1e100)); P.push_back(scaled(probe(d, w), 1e-100)); }
    P.push_back(std::vector<double>(n, 0.0));
    for (auto& a : P) for (auto& b : P) check_pair(t, a, b, "probe-pair", true);
    // identity-dominated operands: the identity plus a generator part of relative size 1e-6 ... 1e-15
    { std::vector<std::vector<double>> Q; for (double g : {1e-6, 1e-9, 1e-12, 1e-15}) for (double c0 : {1.0, -3.5}) { std::vector<double> v = scaled(probe(d, 1), g); v[0] = c0; Q.push_back(v); }
      Q.push_back(unit(d, 0, 2.0)); Q.push_back(probe(d, 0));
      for (auto& a : Q) for (auto& b : Q) check_pair(t, a, b, "identity-plus-small-generator-part", false); }
    // derived facts on the probes (cross-check of the oracle itself)
    for (int w1 = 0; w1 < 3; w1++) for (int w2 = 0; w2 < 3; w2++) {
      count("evaluations");
      SU_vector A = mkvec(d, probe(d, w1)), Bv = mkvec(d, probe(d, w2));
      SU_vector c1(iCommutator(A, Bv)), c2(iCommutator(Bv, A)), a1(ACommutator(A, Bv)), a2(ACommutator(Bv, A));
      double sc = maxabs(probe(d, w1)) * maxabs(probe(d, w2)), tol = 64 * d * ref::EPS * sc;
      double anti = 0, sym = 0; for (int k = 0; k < n; k++) { anti = std::max(anti, std::fabs(c1[k] + c2[k])); sym = std::max(sym, std::fabs(a1[k] - a2[k])); }
      double orth = A * c1;
      if (!(anti <= tol)) violation("iCommutator:not-antisymmetric", J().i("d", d).i("w1", w1).i("w2", w2).num("defect", anti).done());
      if (!(std::fabs(c1[0]) <= tol)) violation("iCommutator:identity-component-nonzero", J().i("d", d).num("c0", c1[0]).done());
      if (!(sym <= tol)) violation("ACommutator:not-symmetric", J().i("d", d).num("defect", sym).done());
      if (!(std::fabs(orth) <= 64 * d * d * d * ref::EPS * sc * maxabs(probe(d, w1)))) violation("Tr(A.i[A,B]):nonzero", J().i("d", d).num("value", orth).done());
    }
  }
  // subnormal and near-overflow operands (products in the ordinary range), before and after a refused solver call on this thread
  for (int phase = 0; phase < 2; phase++) {
    if (phase == 1) for (int d = 2; d <= 3; d++) { Refuser r(d); try { r.Evolve(0.7); count("solver_calls_completed"); } catch (const std::exception&) { count("solver_calls_refused"); } check_fp_env("after a refused Evolve"); }
    for (int d = 2; d <= 6; d++) { Tables t(d);
      std::vector<std::vector<double>> P = {scaled(probe(d, 0), std::ldexp(1.0, -1040)), scaled(probe(d, 1), std::ldexp(1.0, 1000)), scaled(probe(d, 2), std::ldexp(1.0, -1030)), unit(d, 1, std::ldexp(1.0, -1060)), scaled(probe(d, 1), std::ldexp(1.0, 990))};
      for (auto& a : P) for (auto& b : P) { double pa = maxabs(a) * maxabs(b); if (!(pa > 1e-200 && pa < 1e200)) continue; check_pair(t, a, b, phase ? "subnormal-operands-after-refused-solver-call" : "subnormal-operands", false); }
    }
  }
  check_early({2});
  finish();
  return 0;
}
