// C17: node grids (Set_xrange) and bracket lookup (Get_i).
#include "bind.hpp"
#include <SQuIDS/SQuIDS.h>
using namespace vf;

static long long g_idx = 0;
struct S : squids::SQuIDS { S(unsigned nx) : squids::SQuIDS(nx, 2, 1, 0, 0.0) {} void reini(unsigned nx) { ini(nx, 2, 1, 0, 0.0); } };

static bool pow2(unsigned v) { return v && !(v & (v - 1)); }

static void lookups(S& s, const std::vector<double>& x, const std::string& gridclass, const std::string& ctx) {
  unsigned nx = (unsigned)x.size();
  std::vector<double> probes;
  for (unsigned i = 0; i < nx; i++) {
    probes.push_back(x[i]); probes.push_back(std::nextafter(x[i], -INFINITY)); probes.push_back(std::nextafter(x[i], INFINITY));
    if (i + 1 < nx) { probes.push_back(0.5 * (x[i] + x[i + 1])); probes.push_back(x[i] + 0.25 * (x[i + 1] - x[i])); probes.push_back(x[i] + 0.75 * (x[i + 1] - x[i])); }
  }
  double span = x[nx - 1] - x[0];
  probes.push_back(x[0] - span); probes.push_back(x[nx - 1] + span); probes.push_back(x[0] - 1e6 * (1 + std::fabs(x[0]))); probes.push_back(x[nx - 1] + 1e6 * (1 + std::fabs(x[nx - 1])));
  for (double p : probes) {
    count("evaluations"); count("lookups");
    { uint64_t h = hashvec(x, nx); h = ref::fnv(&p, 8, h); distinct(h); }
    sample_every(g_idx++, 40009, "{\"entry\":\"Get_i\",\"grid\":" + ctx + ",\"x\":" + jnum(p) + "}");
    bool inside = p >= x[0] && p <= x[nx - 1];
    bool threw = false; unsigned i = 0;
    try { i = s.Get_i(p); } catch (const std::exception&) { threw = true; }
    if (!inside) { if (!threw) violation("Get_i:outside-not-rejected:" + gridclass, "{\"grid\":" + ctx + ",\"x\":" + jnum(p) + ",\"returned\":" + std::to_string(i) + "}"); continue; }
    if (threw) { violation("Get_i:inside-rejected:" + gridclass, "{\"grid\":" + ctx + ",\"x\":" + jnum(p) + "}"); continue; }
    if (!(i <= nx - 2 && x[i] <= p && p <= x[i + 1]))
      violation("Get_i:bracket:" + gridclass, "{\"grid\":" + ctx + ",\"x\":" + jnum(p) + ",\"returned\":" + std::to_string(i) + ",\"nodes\":" + jarr(x) + "}");
  }
}

int main(int argc, char** argv) {
  Args ar = parse(argc, argv); quiet_gsl();
  const double AB[][2] = {{0, 1}, {-3, 5}, {1, 1e4}, {1e-3, 7.5}, {2, 2 + 1e-9}, {1000, std::nextafter(1000.0, 2000.0)}, {2.5e-3, std::nextafter(std::nextafter(2.5e-3, 1.0), 1.0)}, {6e9, 6e9 + 3e-6}, {-7.5, std::nextafter(-7.5, 0.0)}, {1e-5, 1e305}, {1e-10, 1e300}, {0.25, 1.5e308}, {3e-9, 7e-9},
                          {1.5e308, 1.5e308 + 3 * 1.99584030953472e292}, {1e308, 1e308 + 5 * 1.99584030953472e292}, {-1.7e308, -1.7e308 + 4 * 1.99584030953472e292}, {1e308, 1.7e308}};   // huge ends a few ulps apart (1 ulp = 2^971)   // incl. a and b one or two ulp apart
  unsigned nxmax = ar.reduced ? 12 : 65;
  for (unsigned nx = 2; nx <= nxmax; nx++) {
    for (auto& ab : AB) for (int lg = 0; lg < 2; lg++) {
      double a = ab[0], b = ab[1];
      if (lg && a <= 0) continue;
      S s(nx);
      count("evaluations"); distinct(ref::fnv(&a, 8, nx * 2 + lg) ^ ref::fnv(&b, 8, 5));
      std::string ctx = J().i("nx", nx).str("scale", lg ? "log" : "linear").num("a", a).num("b", b).done();
      s.Set_xrange(a, b, lg ? "log" : "linear");
      std::vector<double> x = s.Get_xrange();
      std::string cls = lg ? "log" : "lin";
      bool ok = x.size() == nx;
      for (unsigned i = 0; ok && i < nx; i++) if (!ref::biteq(x[i], s.Get_x(i))) { violation("Get_x:differs-from-Get_xrange", ctx); break; }
      if (!ok) { violation("Set_xrange:wrong-node-count:" + cls, ctx); continue; }
      bool mono = true; for (unsigned i = 0; i + 1 < nx; i++) if (!(x[i] <= x[i + 1])) mono = false;
      if (!mono) violation("Set_xrange:not-monotone:" + cls, "{\"grid\":" + ctx + ",\"nodes\":" + jarr(x) + "}");
      double endulps = lg ? 4 + 2 * std::max(std::fabs(std::log(a)), std::fabs(std::log(b))) : 4;
      double ea = std::fabs(x[0] - a) / ref::ulp_of(a == 0 ? 1e-300 : a), eb = std::fabs(x[nx - 1] - b) / ref::ulp_of(b);
      if (a == 0) ea = std::fabs(x[0]) == 0 ? 0 : INFINITY;
      maxstat("end_ulps:" + cls, std::max(ea, eb));
      if (!(ea <= endulps && eb <= endulps)) violation("Set_xrange:ends:" + cls, "{\"grid\":" + ctx + ",\"first\":" + jnum(x[0]) + ",\"last\":" + jnum(x[nx - 1]) + "}");
      // equal spacing in x (log x)
      double worst = 0;
      for (unsigned i = 0; i < nx; i++) {
        double want = lg ? std::exp(std::log(a) + (std::log(b) - std::log(a)) * (double)i / (nx - 1)) : a + (b - a) * ((double)i / (nx - 1));
        double tol = lg ? 16 * ref::EPS * std::fabs(want) * (1 + std::fabs(std::log(want))) : 8 * ref::EPS * (std::fabs(b - a) + std::fabs(a));
        worst = std::max(worst, std::fabs(x[i] - want) / tol);
      }
      maxstat("spacing_err/tol:" + cls, worst);
      if (!(worst <= 1)) violation("Set_xrange:spacing:" + cls, "{\"grid\":" + ctx + ",\"nodes\":" + jarr(x) + "}");
      // the ends the caller asked for are inside the grid: Get_i answers for both (first and last interval)
      { count("evaluations"); unsigned ia = 99999, ib = 99999; bool thr = false; try { ia = s.Get_i(a); ib = s.Get_i(b); } catch (const std::exception&) { thr = true; }
        bool ok = !thr && ia <= nx - 2 && ib <= nx - 2 && x[ia] <= a && a <= x[ia + 1] && x[ib] <= b && b <= x[ib + 1];
        if (!ok) violation("Get_i:requested-end-not-answered:" + cls, "{\"grid\":" + ctx + ",\"first\":" + jnum(x[0]) + ",\"last\":" + jnum(x[nx - 1]) + ",\"threw\":" + (thr ? "true" : "false") + "}"); }
      if (mono) lookups(s, x, cls + (pow2(nx - 1) ? ":nx-1-pow2" : ":nx-1-not-pow2"), ctx);
    }
    // user-supplied grids
    std::vector<std::vector<double>> user;
    { std::vector<double> g1(nx), g2(nx), g3(nx); for (unsigned i = 0; i < nx; i++) { g1[i] = i * i * 0.37 - 2.0; g2[i] = std::pow(1.7, (double)i) * 1e-2; g3[i] = (i == 0 ? -5.0 : (i + 1 == nx ? 100.0 : 1.0 + 1e-3 * i)); } user = {g1, g2, g3};
      // grids whose first and last intervals have the same width while the interior is not uniform (centre-refined, with a gap)
      if (nx >= 5) { std::vector<double> g4(nx), g5(nx); unsigned mid = nx / 2;
        double xx = 0; for (unsigned i = 0; i < nx; i++) { g4[i] = xx; bool edge = (i == 0 || i + 2 >= nx); xx += edge ? 1.0 : ((i + 1 >= mid - 1 && i + 1 <= mid + 1) ? 0.125 : 0.5); }
        xx = -3; for (unsigned i = 0; i < nx; i++) { g5[i] = xx; xx += (i + 1 == mid) ? 8.0 : 1.0; }
        user.push_back(g4); user.push_back(g5); } }
    for (auto& g : user) {
      S s(nx); count("evaluations"); distinct(hashvec(g, nx * 7));
      std::string ctx = "{\"nx\":" + std::to_string(nx) + ",\"scale\":\"user\",\"nodes\":" + jarr(g) + "}";
      try { s.Set_xrange(g); } catch (const std::exception&) { violation("Set_xrange(vector):sorted-grid-rejected", ctx); continue; }
      { S s2(nx); std::vector<double> tmp = g; try { s2.Set_xrange(std::move(tmp)); } catch (const std::exception&) { violation("Set_xrange(vector&&):sorted-grid-rejected", ctx); } if (s2.Get_xrange() != g) violation("Set_xrange(vector&&):not-stored-exactly", ctx); }
      std::vector<double> x = s.Get_xrange();
      bool same = x.size() == g.size(); for (unsigned i = 0; same && i < nx; i++) if (!ref::biteq(x[i], g[i])) same = false;
      if (!same) { violation("Set_xrange(vector):not-stored-exactly", ctx); continue; }
      lookups(s, x, std::string("user") + (pow2(nx - 1) ? ":nx-1-pow2" : ":nx-1-not-pow2"), ctx);
      // rejected inputs must throw and leave the stored grid alone
      std::vector<std::vector<double>> bad;
      if (nx >= 2) { std::vector<double> u = g; std::swap(u[0], u[nx - 1]); bad.push_back(u); }
      if (nx >= 3) { std::vector<double> u = g; std::swap(u[1], u[2]); bad.push_back(u); }
      { std::vector<double> u = g; u.push_back(u.back() + 1); bad.push_back(u); std::vector<double> w(g.begin(), g.end() - 1); bad.push_back(w); bad.push_back(std::vector<double>()); }
      for (auto& u : bad) {
        count("evaluations");
        bool threw = false; try { s.Set_xrange(u); } catch (const std::exception&) { threw = true; }
        // the same rejected grid handed over as a temporary and as a moved-from vector
        { bool t2 = false, t3 = false; try { s.Set_xrange(std::vector<double>(u)); } catch (const std::exception&) { t2 = true; } std::vector<double> mv = u; try { s.Set_xrange(std::move(mv)); } catch (const std::exception&) { t3 = true; } if (!t2 || !t3) threw = false; }
        std::vector<double> after = s.Get_xrange();
        if (!threw || after != g) violation(std::string("Set_xrange(vector):bad-input-accepted:") + (u.size() == nx ? "unsorted" : "wrong-size"), "{\"nx\":" + std::to_string(nx) + ",\"input\":" + jarr(u) + "}");
      }
    }
  }
  // ---- histories on one object: every sequence of up to 3 grid-changing operations, bracket lookups after each of them.
  // The grid an operation leaves must be the one the same operation leaves on a fresh object (differential oracle), and the
  // lookups must answer for the CURRENT grid whatever was looked up before.
  {
    enum { H_LIN01, H_LIN35, H_LOG, H_USER1, H_USER3, H_MOVE_USER2, H_MOVE_LIN, H_MOVECTOR, N_H };
    const char* HN[] = {"Set_xrange(0,1,lin)", "Set_xrange(-3,5,lin)", "Set_xrange(1,1e4,log)", "Set_xrange(quadratic)", "Set_xrange(clustered)", "s=move(other with geometric grid)", "s=move(other with Set_xrange(2,2+1e-9,lin))", "s=S(move(s))"};
    auto user = [](unsigned nx, int which) { std::vector<double> g(nx); for (unsigned i = 0; i < nx; i++) g[i] = which == 1 ? i * i * 0.37 - 2.0 : (which == 2 ? std::pow(1.7, (double)i) * 1e-2 : (i == 0 ? -5.0 : (i + 1 == nx ? 100.0 : 1.0 + 1e-3 * i))); return g; };
    auto apply = [&](std::unique_ptr<S>& s, int op, unsigned nx, bool warm_other) {
      switch (op) {
        case H_LIN01: s->Set_xrange(0, 1, "lin"); break; case H_LIN35: s->Set_xrange(-3, 5, "lin"); break; case H_LOG: s->Set_xrange(1, 1e4, "log"); break;
        case H_USER1: s->Set_xrange(user(nx, 1)); break; case H_USER3: s->Set_xrange(user(nx, 3)); break;
        case H_MOVE_USER2: { S o(nx); o.Set_xrange(user(nx, 2)); if (warm_other) { (void)o.Get_i(o.Get_x(nx - 1)); (void)o.Get_i(o.Get_x(0)); } *s = std::move(o); } break;
        case H_MOVE_LIN: { S o(nx); o.Set_xrange(2, 2 + 1e-9, "lin"); if (warm_other) (void)o.Get_i(2 + 0.5e-9); *s = std::move(o); } break;
        case H_MOVECTOR: { std::unique_ptr<S> n(new S(std::move(*s))); s = std::move(n); } break;
      }
    };
    std::vector<unsigned> NX = ar.reduced ? std::vector<unsigned>{2, 5} : std::vector<unsigned>{2, 3, 5, 9, 17};
    for (unsigned nx : NX) for (int len = 1; len <= 3; len++) {
      long total = 1; for (int i = 0; i < len; i++) total *= N_H;
      for (long code = 0; code < total; code++) {
        int ops[3]; long c = code; for (int i = 0; i < len; i++) { ops[i] = (int)(c % N_H); c /= N_H; }
        if (ops[0] == H_MOVECTOR) continue;   // a fresh object has no grid of its own worth moving
        count("evaluations"); count("grid_histories"); count("states"); distinct(ref::fnv(ops, sizeof(int) * len, nx * 131 + len));
        std::unique_ptr<S> s(new S(nx)); std::string hn;
        int last_grid_op = -1;
        for (int i = 0; i < len; i++) {
          apply(s, ops[i], nx, true); hn += (i ? " ; " : "") + std::string(HN[ops[i]]); count("transitions");
          if (ops[i] != H_MOVECTOR) last_grid_op = ops[i];
          std::unique_ptr<S> f(new S(nx)); apply(f, last_grid_op, nx, false);
          std::vector<double> x = s->Get_xrange(), want = f->Get_xrange();
          std::string ctx = "{\"nx\":" + std::to_string(nx) + ",\"history\":" + jstr(hn) + "}";
          bool same = x.size() == want.size(); for (size_t k = 0; same && k < x.size(); k++) if (!ref::biteq(x[k], want[k]) || !ref::biteq(x[k], s->Get_x(k))) same = false;
          if (!same) { violation("grid-history:nodes-differ-from-fresh-object", "{\"case\":" + ctx + ",\"got\":" + jarr(x) + ",\"fresh\":" + jarr(want) + "}"); break; }
          lookups(*s, x, "history", ctx);
        }
      }
    }
  }
  // ---- re-initialisation with another number of nodes between two grids: exactly nx nodes, those of a fresh object, lookups for them
  for (unsigned n1 : {9u, 5u, 3u, 17u}) for (unsigned n2 : {2u, 3u, 5u, 12u}) for (int kind = 0; kind < 3; kind++) {
    if (n1 == n2) continue;
    count("evaluations"); count("reinitialisation_histories"); distinct(ref::fnv(&n1, 4, n2 * 10 + kind));
    S s(n1); s.Set_xrange(0.5, 50.0, kind == 1 ? "log" : "lin"); (void)s.Get_i(25.0);
    s.reini(n2);
    S f(n2); std::vector<double> ug(n2); for (unsigned i = 0; i < n2; i++) ug[i] = 1.0 + 0.5 * i * i;
    if (kind == 0) { s.Set_xrange(1.0, 4.0, "lin"); f.Set_xrange(1.0, 4.0, "lin"); } else if (kind == 1) { s.Set_xrange(1.0, 4.0, "log"); f.Set_xrange(1.0, 4.0, "log"); } else { s.Set_xrange(ug); f.Set_xrange(ug); }
    std::vector<double> x = s.Get_xrange(), want = f.Get_xrange();
    std::string ctx = J().i("nx_before", n1).i("nx_after", n2).i("grid_kind", kind).done();
    bool same = x.size() == want.size() && x.size() == n2; for (size_t k = 0; same && k < x.size(); k++) if (!ref::biteq(x[k], want[k])) same = false;
    if (!same) { violation("re-initialisation:grid-differs-from-fresh-object", "{\"case\":" + ctx + ",\"got\":" + jarr(x) + ",\"fresh\":" + jarr(want) + "}"); continue; }
    lookups(s, x, "after-re-initialisation", ctx);
  }
  finish();
  return 0;
}
