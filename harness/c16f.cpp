// C16 (second enumerator): allocation failure inside element-wise operations whose CALLABLE allocates when it is copied.
// The library copies the user's callable while it builds and evaluates the expression; with a std::function holding a lambda
// with a large capture every such copy is an allocation point of the operation (scalar operator new). For every statement form
// x operand value category x dimension the allocation points are counted in a dry run and then refused one at a time.
// Oracle (the statement of C16): bad_alloc propagates; every vector other than the assignment target keeps its value (a consumed
// r-value operand may be left valid-but-unspecified only if the operation completed); nothing is leaked or released twice once
// everything is destroyed and the cache emptied; every vector can be reassigned and destroyed; the operation can be retried.
#include "bind.hpp"
#include <functional>
#include <new>
#include <cstdlib>
#include <set>
using namespace vf;

static long g_n = 0, g_fail = -1; static bool g_counting = false, g_track = false; static long g_bad_free = 0;
static bool g_internal = false;   // the ledger's own bookkeeping allocations are neither counted nor tracked
static std::set<void*>& live() { static std::set<void*>* s = nullptr; if (!s) { bool was = g_internal; g_internal = true; s = new std::set<void*>(); g_internal = was; } return *s; }
static void* take(std::size_t n) {
  if (!g_internal && g_counting) { long me = g_n++; if (g_fail >= 0 && me == g_fail) throw std::bad_alloc(); }
  void* p = std::malloc(n ? n : 1); if (!p) throw std::bad_alloc();
  if (!g_internal && g_track) { g_internal = true; live().insert(p); g_internal = false; }
  return p;
}
static void give(void* p) { if (!p) return; if (!g_internal && g_track) { g_internal = true; if (!live().erase(p)) g_bad_free++; g_internal = false; } std::free(p); }
void* operator new(std::size_t n) { return take(n); }
void* operator new[](std::size_t n) { return take(n); }
void operator delete(void* p) noexcept { give(p); }
void operator delete[](void* p) noexcept { give(p); }
void operator delete(void* p, std::size_t) noexcept { give(p); }
void operator delete[](void* p, std::size_t) noexcept { give(p); }

typedef std::function<double(double, double)> Fn;
static Fn make_fn() { double c[4] = {1.0, -2.0, 0.5, 0.25}; return [c](double x, double y) { return c[0] * x + c[1] * y + c[2] - c[3] - 0.25; }; }   // x - 2y; capture too large for the small-object buffer

enum Form { CONSTRUCT, ASSIGN_EMPTY, ASSIGN_OTHER, ASSIGN_SAME, INC, NFORMS };
enum Cat { LL, RL, LR, RR, NCATS };
static const char* FNAME[] = {"SU_vector v(EW(f,a,b))", "empty = EW(f,a,b)", "other-size = EW(f,a,b)", "same-size = EW(f,a,b)", "v += EW(f,a,b)"};
static const char* CNAME[] = {"a,b", "move(a),b", "a,move(b)", "move(a),move(b)"};

struct World { std::unique_ptr<SU_vector> a, b, v; alignas(16) unsigned char raw[sizeof(SU_vector)]; bool built = false; };

static void statement(World& w, const Fn& f, int form, int cat) {
  SU_vector &A = *w.a, &B = *w.b;
#define EXPR (cat == LL ? squids::ElementwiseOperation(f, A, B) : cat == RL ? squids::ElementwiseOperation(f, std::move(A), B) : cat == LR ? squids::ElementwiseOperation(f, A, std::move(B)) : squids::ElementwiseOperation(f, std::move(A), std::move(B)))
  switch (cat) {   // the proxy types differ per category: instantiate the statement per category
#define STMT(E) do { if (form == CONSTRUCT) { new (w.raw) SU_vector(E); w.built = true; } else if (form == INC) { *w.v += E; } else { *w.v = E; } } while (0)
    case LL: STMT(squids::ElementwiseOperation(f, A, B)); break;
    case RL: STMT(squids::ElementwiseOperation(f, std::move(A), B)); break;
    case LR: STMT(squids::ElementwiseOperation(f, A, std::move(B))); break;
    default: STMT(squids::ElementwiseOperation(f, std::move(A), std::move(B))); break;
  }
}

static void setup(World& w, int d, int form) {
  w.a.reset(new SU_vector(mkvec(d, probe(d, 0)))); w.b.reset(new SU_vector(mkvec(d, probe(d, 1)))); w.built = false;
  int dother = d == 2 ? 4 : (d == 3 ? 5 : d - 2);   // same parity: the old block would be cacheable under the new dimension
  if (form == ASSIGN_EMPTY) w.v.reset(new SU_vector()); else if (form == ASSIGN_OTHER) w.v.reset(new SU_vector(mkvec(dother, probe(dother, 2)))); else if (form != CONSTRUCT) w.v.reset(new SU_vector(mkvec(d, probe(d, 2)))); else w.v.reset();
}
static void teardown(World& w) { if (w.built) { reinterpret_cast<SU_vector*>(w.raw)->~SU_vector(); w.built = false; } w.a.reset(); w.b.reset(); w.v.reset(); SU_vector::clear_mem_cache(); }

int main(int argc, char** argv) {
  Args ar = parse(argc, argv); quiet_gsl(); install_crash_reporter();
  for (int d = 2; d <= 6; d++) ref::basis(d);
  Fn f = make_fn();
  for (int d = 2; d <= (ar.reduced ? 3 : 6); d++) for (int form = 0; form < NFORMS; form++) for (int cat = 0; cat < NCATS; cat++) for (int warm = 0; warm < 2; warm++) {
    std::string ctx = J().str("statement", FNAME[form]).str("operands", CNAME[cat]).i("d", d).i("cache_warm", warm).done();
    set_case(ctx);
    // dry run: count the allocation points of the statement
    World w; SU_vector::clear_mem_cache(); if (warm) { SU_vector t1((unsigned)d), t2((unsigned)d); }
    setup(w, d, form); g_n = 0; g_fail = -1; g_counting = true; statement(w, f, form, cat); g_counting = false; long N = g_n; teardown(w);
    count("evaluations"); count("statements"); count("allocation_points", N);
    for (long k = 0; k < N; k++) {
      count("evaluations"); count("fault_runs"); distinct(ref::fnv(&k, 8, (uint64_t)(d * 1000 + form * 100 + cat * 10 + warm)));
      SU_vector::clear_mem_cache();
      g_internal = true; live().clear(); g_internal = false; g_bad_free = 0; g_track = true;
      if (warm) { SU_vector t1((unsigned)d), t2((unsigned)d); }
      {
        World w2; setup(w2, d, form);
        std::vector<double> a0 = comps(*w2.a), b0 = comps(*w2.b), v0 = w2.v ? comps(*w2.v) : std::vector<double>();
        g_n = 0; g_fail = k; g_counting = true; bool threw = false, other = false;
        try { statement(w2, f, form, cat); } catch (const std::bad_alloc&) { threw = true; } catch (const std::exception&) { other = true; }
        g_counting = false; g_fail = -1;
        std::string fctx = "{\"case\":" + ctx + ",\"failed_allocation\":" + std::to_string(k) + ",\"of\":" + std::to_string(N) + "}";
        if (!threw) { violation(other ? "bad_alloc:replaced-by-other-exception:elementwise-callable" : "bad_alloc:swallowed:elementwise-callable", fctx); }
        else {
          // operands keep their value (the statement did not complete); a target other than the assigned one does not exist here
          if (!(w2.a->Dim() == (unsigned)d && comps(*w2.a) == a0) || !(w2.b->Dim() == (unsigned)d && comps(*w2.b) == b0)) violation("bad_alloc:operand-changed:elementwise-callable", fctx);
          // no two of the vectors share storage
          std::vector<const double*> ptrs; for (SU_vector* p : {w2.a.get(), w2.b.get(), w2.v.get()}) if (p && p->Size()) ptrs.push_back(&(*p)[0]);
          for (size_t i = 0; i < ptrs.size(); i++) for (size_t j = i + 1; j < ptrs.size(); j++) if (ptrs[i] == ptrs[j]) violation("bad_alloc:two-vectors-on-one-block:elementwise-callable", fctx);
          // every vector can be reassigned; the statement can be retried with memory available
          try { SU_vector z((unsigned)d); z[0] = 4; if (w2.v) *w2.v = z; *w2.a = mkvec(d, a0); *w2.b = mkvec(d, b0); if (w2.v && form != ASSIGN_EMPTY) *w2.v = mkvec(form == ASSIGN_OTHER ? (int)(d == 2 ? 4 : (d == 3 ? 5 : d - 2)) : d, probe(form == ASSIGN_OTHER ? (d == 2 ? 4 : (d == 3 ? 5 : d - 2)) : d, 2));
            statement(w2, f, form, cat); }
          catch (const std::exception& ex) { violation("bad_alloc:not-usable-afterwards:elementwise-callable", "{\"case\":" + ctx + ",\"what\":" + jstr(ex.what()) + "}"); }
        }
        teardown(w2);
      }
      g_track = false;
      if (g_bad_free) violation("ledger:release-of-a-block-that-is-not-live:elementwise-callable", "{\"case\":" + ctx + ",\"failed_allocation\":" + std::to_string(k) + "}");
      if (!live().empty()) violation("ledger:leak-at-quiescence:elementwise-callable", "{\"case\":" + ctx + ",\"failed_allocation\":" + std::to_string(k) + ",\"blocks\":" + std::to_string(live().size()) + "}");
    }
  }
  set_case("");
  finish();
  return 0;
}
