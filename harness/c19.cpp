// C19: the shared lock-free block cache under every interleaving (bounded), plus sequential LIFO behaviour
// of both variants. Scheduling points are the compiler-placed ThreadSanitizer hooks of c19_cache.cpp, which
// this file defines itself (the program is NOT linked against libtsan).
#include "common.hpp"
#include "ref.hpp"
#include "sched.hpp"
#include "c19_ops.h"
#include <set>
#include <map>
#include <algorithm>
#include <chrono>
using namespace vf;

// ------------------------------------------------------------------ shared object and hooks
alignas(64) static unsigned char g_obj[4096];
static size_t g_objsize = 0;
static bool g_selftest_counter = false;
static inline bool shared_addr(const volatile void* p) { const unsigned char* c = (const unsigned char*)p; return c >= g_obj && c < g_obj + g_objsize; }
static long g_hook_calls = 0;

static inline void plain_access(void* addr, size_t sz, bool write) {
  if (!shared_addr(addr)) return;
  g_hook_calls++;
  sched::point();
  if (!write) { uint64_t v = 0; memcpy(&v, addr, sz > 8 ? 8 : sz); sched::note(((uint64_t)((unsigned char*)addr - g_obj) << 40) ^ v ^ (sz << 36)); }
  else sched::note(((uint64_t)((unsigned char*)addr - g_obj) << 40) ^ 0xF00D);
}
extern "C" {
void __tsan_init() {}
void __tsan_func_entry(void*) {}
void __tsan_func_exit() {}
void __tsan_read1(void* a) { plain_access(a, 1, false); }
void __tsan_read2(void* a) { plain_access(a, 2, false); }
void __tsan_read4(void* a) { plain_access(a, 4, false); }
void __tsan_read8(void* a) { plain_access(a, 8, false); }
void __tsan_read16(void* a) { plain_access(a, 16, false); }
void __tsan_write1(void* a) { plain_access(a, 1, true); }
void __tsan_write2(void* a) { plain_access(a, 2, true); }
void __tsan_write4(void* a) { plain_access(a, 4, true); }
void __tsan_write8(void* a) { plain_access(a, 8, true); }
void __tsan_write16(void* a) { plain_access(a, 16, true); }
void __tsan_unaligned_read4(void* a) { plain_access(a, 4, false); }
void __tsan_unaligned_read8(void* a) { plain_access(a, 8, false); }
void __tsan_unaligned_write4(void* a) { plain_access(a, 4, true); }
void __tsan_unaligned_write8(void* a) { plain_access(a, 8, true); }
void __tsan_read_range(void* a, unsigned long n) { plain_access(a, n, false); }
void __tsan_write_range(void* a, unsigned long n) { plain_access(a, n, true); }
void __tsan_vptr_update(void**, void*) {}
void __tsan_vptr_read(void**) {}
long __tsan_atomic64_load(const volatile long* a, int) {
  if (shared_addr((const void*)a)) { g_hook_calls++; sched::point(); }
  long v = *a; if (shared_addr((const void*)a)) sched::note(((uint64_t)((unsigned char*)a - g_obj) << 40) ^ (uint64_t)v ^ 0xA1);
  return v;
}
void __tsan_atomic64_store(volatile long* a, long v, int) { if (shared_addr((const void*)a)) { g_hook_calls++; sched::point(); sched::note(0xA2); } *a = v; }
int __tsan_atomic64_compare_exchange_weak(volatile long* a, long* c, long v, int, int) {
  bool sh = shared_addr((const void*)a);
  int spurious = 0;
  if (sh) { g_hook_calls++; sched::point(); spurious = sched::env_choice(2); }
  if (!spurious && *a == *c) { *a = v; if (sh) sched::note(0xC0FFEE); return 1; }
  *c = *a; if (sh) sched::note(((uint64_t)*c) ^ 0xBAD ^ ((uint64_t)spurious << 60));
  return 0;
}
int __tsan_atomic64_compare_exchange_strong(volatile long* a, long* c, long v, int, int) {
  bool sh = shared_addr((const void*)a);
  if (sh) { g_hook_calls++; sched::point(); }
  if (*a == *c) { *a = v; if (sh) sched::note(0xC0FFEE); return 1; }
  *c = *a; if (sh) sched::note(((uint64_t)*c) ^ 0xBAD); return 0;
}
int __tsan_atomic32_load(const volatile int* a, int) { if (shared_addr((const void*)a)) { g_hook_calls++; sched::point(); } int v = *a; if (shared_addr((const void*)a)) sched::note((uint64_t)v ^ 0xA3); return v; }
void __tsan_atomic32_store(volatile int* a, int v, int) { if (shared_addr((const void*)a)) { g_hook_calls++; sched::point(); } *a = v; }
}

// ------------------------------------------------------------------ configurations
struct Config { int N, threads, ops, root; std::vector<std::vector<int>> script; /* 1 = insert, 0 = get */ };
static std::string cfg_str(const Config& c) { std::string s = fmt("N=%d root=%d ", c.N, c.root); for (auto& t : c.script) { s += "["; for (int o : t) s += o ? "I" : "G"; s += "]"; } return s; }

struct RunObs { std::vector<std::vector<int>> results; };  // per thread, per op: insert -> 1/0, get -> token id or 0

struct Harness {
  Config cfg; const CacheOps* ops; sched::Explorer ex; RunObs obs; long violations = 0; std::set<std::string> outcomes; std::string opt;
  void setup() {
    g_objsize = ops->size; memset(g_obj, 0, sizeof g_obj);
    ops->construct(g_obj);
    for (int i = 0; i < cfg.root; i++) ops->insert(g_obj, i + 1);   // root entries: tokens 1..root (sequential, before the threads start)
    obs.results.assign(cfg.threads, std::vector<int>());
    for (int t = 0; t < cfg.threads; t++) ex.spawn([this, t]() {
      for (int k = 0; k < (int)cfg.script[t].size(); k++) {
        sched::Explorer::self()->op_boundary((uint64_t)k * 131 + obs.results[t].size() + ref::fnv(obs.results[t].data(), obs.results[t].size() * sizeof(int)));
        int r = cfg.script[t][k] ? ops->insert(g_obj, 100 * (t + 1) + k + 1) : ops->get(g_obj);
        obs.results[t].push_back(r);
      }
      sched::Explorer::self()->op_boundary(0xE0D + ref::fnv(obs.results[t].data(), obs.results[t].size() * sizeof(int)));
    });
  }
  std::string schedule_str() { std::string s; for (size_t i = 0; i < ex.choices.size(); i++) { if (i) s += ","; s += std::to_string(ex.choices[i]); } return s; }
  void check(bool deadlock, bool livelock) {
    std::string ctx = "{\"replay\":" + jstr(opt + ";" + cfg_str(cfg) + ";" + schedule_str()) + ",\"config\":" + jstr(cfg_str(cfg)) + ",\"build\":" + jstr(opt) + ",\"schedule\":" + jstr(schedule_str());
    if (livelock) { violations++; violation("cache:livelock", ctx + "}"); return; }
    // drain sequentially
    std::vector<int> drained; for (int q = 0; q < cfg.N + 3; q++) { int id = ops->get(g_obj); if (!id) break; drained.push_back(id); }
    std::set<int> inserted; for (int i = 0; i < cfg.root; i++) inserted.insert(i + 1);
    std::set<int> failed; std::vector<int> fetched;
    std::string out;
    for (int t = 0; t < cfg.threads; t++) for (int k = 0; k < (int)cfg.script[t].size(); k++) {
      int r = obs.results[t][k]; int tok = 100 * (t + 1) + k + 1;
      if (cfg.script[t][k]) { if (r) inserted.insert(tok); else failed.insert(tok); } else if (r) fetched.push_back(r);
      out += std::to_string(r) + ",";
    }
    out += "|"; for (int d : drained) out += std::to_string(d) + ",";
    outcomes.insert(out);
    std::string detail = ",\"results\":" + jstr(out) + "}";
    std::multiset<int> all(fetched.begin(), fetched.end()); for (int d : drained) all.insert(d);
    for (int id : all) {
      if (!inserted.count(id)) { violations++; violation(failed.count(id) ? "cache:failed-insert-token-handed-out" : "cache:returned-token-never-inserted", ctx + detail); return; }
      if (all.count(id) > 1) { violations++; violation("cache:token-returned-twice", ctx + detail); return; }
    }
    for (int id : inserted) if (!all.count(id)) { violations++; violation("cache:inserted-token-lost", ctx + detail); return; }
    if ((int)drained.size() > cfg.N) { violations++; violation("cache:holds-more-than-capacity", ctx + detail); return; }
    if (ops->get(g_obj) != 0) { violations++; violation("cache:not-empty-after-drain", ctx + detail); return; }
  }
};

static std::vector<std::vector<std::vector<int>>> scripts(int threads, int ops) {
  std::set<std::vector<std::vector<int>>> canon;
  for (int code = 0; code < (1 << (threads * ops)); code++) {
    std::vector<std::vector<int>> s(threads, std::vector<int>(ops));
    for (int t = 0; t < threads; t++) for (int k = 0; k < ops; k++) s[t][k] = (code >> (t * ops + k)) & 1;
    std::sort(s.begin(), s.end());  // threads are symmetric
    canon.insert(s);
  }
  return std::vector<std::vector<std::vector<int>>>(canon.begin(), canon.end());
}

// ------------------------------------------------------------------ explorer self-tests
static long g_counter;
static bool selftests() {
  bool ok = true;
  auto binom = [](int n, int k) { double r = 1; for (int i = 1; i <= k; i++) r = r * (n - k + i) / i; return (long)(r + 0.5); };
  // k threads of n independent steps, hashing off: multinomial number of schedules
  for (int n = 1; n <= 4; n++) {
    sched::Explorer ex; ex.use_hashing = false;
    ex.setup = [&ex, n]() { for (int t = 0; t < 2; t++) ex.spawn([n]() { for (int i = 0; i < n; i++) sched::point(); }); };
    ex.explore_all();
    // two threads with n scheduling points each: (n+1) segments each -> C(2n+2, n+1) / ... count interleavings of the n yields
    long want = binom(2 * n + 2, n + 1) / 1;  // upper bound on distinct schedules; exact value checked below by a direct count
    long direct = 0; { // direct count: sequences of thread choices until both finish, each thread having n+1 segments, default continues
      std::function<void(int, int)> rec = [&](int a, int b) { if (a == 0 || b == 0) { direct++; return; } rec(a - 1, b); rec(a, b - 1); }; rec(n + 1, n + 1); }
    if (ex.executions != direct) { printf("#I selftest\tindependent steps n=%d: %ld executions, expected %ld\n", n, ex.executions, direct); ok = false; }
    (void)want;
  }
  // non-atomic counter: lost update needs one preemption
  for (int bound = 0; bound <= 1; bound++) {
    sched::Explorer ex; ex.preempt_bound = bound; long lost = 0;
    ex.setup = [&ex]() { g_counter = 0; for (int t = 0; t < 2; t++) ex.spawn([]() { sched::point(); long v = g_counter; sched::note(v); sched::point(); g_counter = v + 1; }); };
    ex.state_hash = []() { return (uint64_t)g_counter * 7919; };
    ex.check = [&](bool, bool) { if (g_counter != 2) lost++; };
    ex.explore_all();
    if ((bound == 0 && lost != 0) || (bound == 1 && lost == 0)) { printf("#I selftest\tlost update with bound %d: %ld\n", bound, lost); ok = false; }
  }
  // replay determinism: the same schedule gives the same observations twice
  { sched::Explorer ex; std::vector<long> seen;
    ex.setup = [&ex]() { g_counter = 0; for (int t = 0; t < 2; t++) ex.spawn([t]() { for (int i = 0; i < 3; i++) { sched::point(); g_counter = g_counter * 3 + t + 1; } }); };
    std::vector<int> sch = {1, 0, 1, 1, 0};
    ex.run(sch); long a = g_counter; ex.run(sch); long b = g_counter; if (a != b) { printf("#I selftest\treplay not deterministic\n"); ok = false; } }
  return ok;
}

int main(int argc, char** argv) {
  Args ar = parse(argc, argv);
  std::string opt = ar.get("opt", "O0");
  if (ar.mode == "selftest") { bool ok = selftests(); printf("selftest %s\n", ok ? "ok" : "FAILED"); return ok ? 0 : 1; }
  if (!selftests()) violation("harness:explorer-selftest-failed", "{}");
  // ------------- replay of one schedule -------------
  if (!ar.replay.empty()) {
    // "<opt>;N=.. root=.. [..][..];c,c,c"
    std::string r = ar.replay; size_t p1 = r.find(';'), p2 = r.rfind(';'); std::string cs = r.substr(p1 + 1, p2 - p1 - 1), ss = r.substr(p2 + 1);
    Harness h; h.opt = r.substr(0, p1); sscanf(cs.c_str(), "N=%d root=%d", &h.cfg.N, &h.cfg.root);
    for (size_t i = 0; i < cs.size(); i++) if (cs[i] == '[') { std::vector<int> t; for (i++; cs[i] != ']'; i++) t.push_back(cs[i] == 'I'); h.cfg.script.push_back(t); }
    h.cfg.threads = (int)h.cfg.script.size(); h.cfg.ops = h.cfg.threads ? (int)h.cfg.script[0].size() : 0; h.ops = &OpsShared[h.cfg.N];
    std::vector<int> sch; for (size_t p = 0; p < ss.size();) { sch.push_back(atoi(ss.c_str() + p)); size_t q = ss.find(',', p); if (q == std::string::npos) break; p = q + 1; }
    h.ex.deviation_bound = 1; h.ex.use_hashing = false;
    h.ex.setup = [&h]() { h.setup(); }; h.ex.check = [&h](bool d, bool l) { h.check(d, l); };
    for (int rep = 0; rep < 2; rep++) { h.ex.run(sch); printf("replay run %d: results", rep); for (auto& t : h.obs.results) { printf(" ["); for (int x : t) printf("%d ", x); printf("]"); } printf("\n"); }
    count("evaluations"); count("states"); count("transitions"); finish(); return 0;
  }
  // ------------- sequential part: bounded LIFO pool, both variants -------------
  for (int variant = 0; variant < 2; variant++) for (int N = 1; N <= 4; N++) {
    const CacheOps* ops = variant ? &OpsTL[N] : &OpsShared[N];
    int L = 2 * N + 4;
    for (long code = 0; code < (1L << L); code++) {
      if ((code % ar.nshards) != ar.shard) continue;
      g_objsize = 0;  // no scheduling: hooks see no shared address
      alignas(64) static unsigned char obj[4096]; memset(obj, 0, sizeof obj); ops->construct(obj);
      std::vector<int> stack; int next = 1; bool bad = false; std::string trace;
      for (int i = 0; i < L && !bad; i++) {
        if ((code >> i) & 1) { int r = ops->insert(obj, next); bool want = (int)stack.size() < N; trace += want ? "I" : "i"; if ((r != 0) != want) bad = true; if (want) stack.push_back(next); next++; }
        else { int r = ops->get(obj); int want = stack.empty() ? 0 : stack.back(); trace += "G"; if (r != want) bad = true; if (!stack.empty()) stack.pop_back(); }
      }
      count("sequential_strings"); count("evaluations"); distinct(ref::fnv(&code, 8, variant * 10 + N));
      if (bad) violation(std::string("cache:sequential-not-bounded-lifo:") + (variant ? "thread-local-variant" : "shared-variant"), J().i("N", N).str("ops", trace).done());
    }
  }
  // ------------- concurrent part -------------
  bool th = ar.thorough();
  struct Plan { int threads, ops, bound; int maxN; };
  std::vector<Plan> plans = {{2, 1, 1 << 20, 4}, {2, 2, 1 << 20, 4}, {2, 3, 1 << 20, 4}, {3, 1, 1 << 20, 4}, {3, 2, th ? 4 : 2, 4}};
  if (th) plans.push_back({3, 3, 3, 2});
  { std::string only = ar.get("plans", ""); if (!only.empty()) { std::vector<Plan> sel; for (auto& pl : plans) if (only.find(fmt("%dx%d", pl.threads, pl.ops)) != std::string::npos) sel.push_back(pl); plans = sel; } }
  bool verbose = ar.geti("verbose", 0) != 0; int onlyN = (int)ar.geti("onlyN", 0);
  double deadline = (double)ar.geti("deadline", 100000); auto t0 = std::chrono::steady_clock::now();
  long caseno = 0, total_exec = 0, total_states = 0, total_points = 0, configs = 0; size_t max_outcomes = 0; long single_outcome_configs = 0;
  for (auto& pl : plans) {
    auto scs = scripts(pl.threads, pl.ops);
    for (int N = 1; N <= pl.maxN; N++) for (int rootk = 0; rootk < 3; rootk++) {
      if (onlyN && N != onlyN) continue;
      int root = rootk == 0 ? 0 : (rootk == 1 ? 1 : N); if (rootk == 1 && N == 1) continue;  // "one entry" and "full" coincide for N=1
      for (auto& sc : scs) {
        if ((caseno++ % ar.nshards) != ar.shard) continue;
        if (std::chrono::duration<double>(std::chrono::steady_clock::now() - t0).count() > deadline) { not_exhaustive(); info("deadline", "hit in plan " + std::to_string(pl.threads) + "x" + std::to_string(pl.ops)); goto done; }
        Harness h; h.opt = opt; h.cfg.N = N; h.cfg.threads = pl.threads; h.cfg.ops = pl.ops; h.cfg.root = root; h.cfg.script = sc; h.ops = &OpsShared[N];
        h.ex.preempt_bound = pl.bound; h.ex.deviation_bound = 1; h.ex.max_executions = 3000000;
        h.ex.setup = [&h]() { h.setup(); };
        h.ex.state_hash = []() { return ref::fnv(g_obj, g_objsize); };
        h.ex.check = [&h](bool d, bool l) { h.check(d, l); };
        set_case(cfg_str(h.cfg));
        h.ex.explore_all();
        if (verbose) fprintf(stderr, "%s plan %dx%d: executions=%ld states=%zu pruned=%ld outcomes=%zu %.1fs\n", cfg_str(h.cfg).c_str(), pl.threads, pl.ops, h.ex.executions, h.ex.distinct_states, h.ex.pruned, h.outcomes.size(), std::chrono::duration<double>(std::chrono::steady_clock::now() - t0).count());
        configs++; total_exec += h.ex.executions; total_states += (long)h.ex.distinct_states; total_points += h.ex.points_total;
        if (h.ex.capped) { not_exhaustive(); info("capped", cfg_str(h.cfg)); }
        max_outcomes = std::max(max_outcomes, h.outcomes.size()); if (h.outcomes.size() <= 1) single_outcome_configs++;
        distinct(ref::fnv(cfg_str(h.cfg).data(), cfg_str(h.cfg).size()));
        count(fmt("executions:%dx%d:bound=%s", pl.threads, pl.ops, pl.bound >= (1 << 20) ? "unbounded" : std::to_string(pl.bound).c_str()), h.ex.executions);
        sample_every(caseno, 97, "{\"config\":" + jstr(cfg_str(h.cfg)) + ",\"executions\":" + std::to_string(h.ex.executions) + ",\"hashed_states\":" + std::to_string(h.ex.distinct_states) + ",\"distinct_outcomes\":" + std::to_string(h.outcomes.size()) + "}");
      }
    }
  }
done:
  count("configurations", configs); count("executions", total_exec); count("states", total_states); count("transitions", total_points); count("evaluations", total_exec);
  count("configs_with_single_outcome", single_outcome_configs); maxstat("max_distinct_outcomes_per_config", (double)max_outcomes); count("hook_calls", g_hook_calls);
  info("build", opt);
  finish();
  return 0;
}
