// Schedule explorer: threads are ucontext fibres on one OS thread; a scheduling point hands control to the
// explorer, which decides who runs next. Stateless depth-first search over choice sequences with iterative
// preemption bounding and state hashing at choice points (see DESIGN.md A.2).
//
// Client interface:
//   sched::Explorer ex; ex.setup = [](){ ...create shared state...; ex.spawn(body0); ex.spawn(body1); };
//   ex.state_hash = []() -> uint64_t { hash of shared memory };      (thread-local parts are added by the explorer)
//   ex.check = [](bool deadlock, bool livelock) { oracle at the end of one execution };
//   inside thread bodies: sched::point() at every shared access, sched::note(x) for every value observed,
//   sched::env_choice(n) for an environment answer (deviation from the default answer 0 costs one deviation).
#pragma once
#include <functional>
#include <vector>
#include <unordered_map>
#include <cstdint>
#include <cstdlib>
#include <cstring>
#include <string>

// Minimal x86-64 context switch (callee-saved registers only): ucontext's swapcontext makes a sigprocmask system
// call on every switch, which dominated the run time.
extern "C" void vf_ctx_switch(void** save_sp, void* load_sp);
#if defined(__x86_64__)
asm(".text\n.globl vf_ctx_switch\n.type vf_ctx_switch,@function\nvf_ctx_switch:\n"
    "  pushq %rbp\n  pushq %rbx\n  pushq %r12\n  pushq %r13\n  pushq %r14\n  pushq %r15\n"
    "  movq %rsp, (%rdi)\n  movq %rsi, %rsp\n"
    "  popq %r15\n  popq %r14\n  popq %r13\n  popq %r12\n  popq %rbx\n  popq %rbp\n  ret\n"
    ".size vf_ctx_switch,.-vf_ctx_switch\n");
#else
#error "sched.hpp: context switch implemented for x86-64 only"
#endif

namespace sched {

struct Point { int kind; int nalt; int chosen; uint64_t hash; bool running_enabled; int preempt_before; int dev_before; std::vector<int> alts; bool fresh; };

#ifdef VF_SCHED_PTHREADS
}  // namespace sched
#include <pthread.h>
#include <semaphore.h>
namespace sched {
// real threads serialised by a baton (one semaphore per thread): needed where thread-local storage is the subject
struct Fiber { pthread_t th; sem_t sem; bool joined; void* sp; char* stack; std::function<void()> body; std::function<bool()> blocked_on; bool finished; uint64_t local_hash; long steps; };
#else
struct Fiber { void* sp; char* stack; std::function<void()> body; std::function<bool()> blocked_on; bool finished; uint64_t local_hash; long steps; };
#endif

struct Explorer {
  // client hooks
  std::function<void()> setup;
  std::function<uint64_t()> state_hash;
  std::function<void(bool, bool)> check;
  // configuration
  int preempt_bound = 1 << 20, deviation_bound = 0; bool use_hashing = true; long step_cap = 10000; long max_executions = -1;
  // statistics
  long executions = 0, pruned = 0, points_total = 0, deadlocks = 0, livelocks = 0, aborted_runs = 0; size_t distinct_states = 0; bool capped = false;
  // per-run state
  std::vector<Fiber*> fibers; void* main_sp = nullptr; std::vector<char*> stack_pool; int cur = -1; std::vector<Point> points; std::vector<int> choices; const std::vector<int>* prefix = nullptr;
  int preemptions = 0, deviations = 0, last_running = -1; bool in_fiber = false; bool abort_run = false; int pending_env = 0, env_answer = 0;
  std::unordered_map<uint64_t, int> visited;

  static Explorer*& self() { static Explorer* e = nullptr; return e; }
  ~Explorer() { if (self() == this) self() = nullptr; for (auto* f : fibers) retire(f); for (char* st : stack_pool) free(st); }
  bool hash_last_running() const { return preempt_bound < (1 << 20); }
#ifdef VF_SCHED_PTHREADS
  sem_t main_sem; bool main_sem_init = false;
  static void* thread_entry(void* arg) { Fiber* f = (Fiber*)arg; sem_wait(&f->sem); Explorer* e = self(); f->body(); f->finished = true; e->in_fiber = false; sem_post(&e->main_sem); return nullptr; }
  void spawn(std::function<void()> body) {
    if (!main_sem_init) { sem_init(&main_sem, 0, 0); main_sem_init = true; }
    Fiber* f = new Fiber(); f->stack = nullptr; f->sp = nullptr; f->body = body; f->finished = false; f->joined = false; f->local_hash = 1469598103934665603ULL + fibers.size(); f->steps = 0;
    sem_init(&f->sem, 0, 0); pthread_create(&f->th, nullptr, &thread_entry, f);
    fibers.push_back(f);
  }
  void to_fiber(int id) { sem_post(&fibers[id]->sem); sem_wait(&main_sem); if (fibers[id]->finished && !fibers[id]->joined) { pthread_join(fibers[id]->th, nullptr); fibers[id]->joined = true; } }
  void to_main() { Fiber* f = fibers[cur]; sem_post(&main_sem); sem_wait(&f->sem); }
  void retire(Fiber* f) { if (!f->joined) { fprintf(stderr, "sched: a thread of an abandoned execution cannot be joined\n"); abort(); } sem_destroy(&f->sem); delete f; }
#else
  static const size_t STACK = 128 * 1024;
  static void fiber_entry() { Explorer* e = self(); int id = e->cur; e->fibers[id]->body(); e->fibers[id]->finished = true; e->in_fiber = false; vf_ctx_switch(&e->fibers[id]->sp, e->main_sp); abort(); }
  void spawn(std::function<void()> body) {
    Fiber* f = new Fiber(); if (!stack_pool.empty()) { f->stack = stack_pool.back(); stack_pool.pop_back(); } else f->stack = (char*)malloc(STACK);
    f->body = body; f->finished = false; f->local_hash = 1469598103934665603ULL + fibers.size(); f->steps = 0;
    uintptr_t top = ((uintptr_t)(f->stack + STACK)) & ~(uintptr_t)15;
    void** sp = (void**)top; *--sp = nullptr; *--sp = (void*)&fiber_entry; for (int i = 0; i < 6; i++) *--sp = nullptr;
    f->sp = sp;
    fibers.push_back(f);
  }
  void to_fiber(int id) { vf_ctx_switch(&main_sp, fibers[id]->sp); }
  void to_main() { Fiber* f = fibers[cur]; vf_ctx_switch(&f->sp, main_sp); }
  void retire(Fiber* f) { stack_pool.push_back(f->stack); delete f; }
#endif
  // a thread that must wait yields with a predicate; it is enabled again only when the predicate holds (evaluated by the scheduler)
  void yield_blocked(std::function<bool()> pred) { if (!in_fiber) { if (!pred()) { fprintf(stderr, "sched: blocking wait outside the scheduler\n"); abort(); } return; } while (!pred()) { Fiber* f = fibers[cur]; f->blocked_on = pred; f->steps++; in_fiber = false; to_main(); in_fiber = true; f->blocked_on = nullptr; } }
  // ---- called from inside fibres ----
  void yield_point() { if (!in_fiber) return; Fiber* f = fibers[cur]; f->steps++; in_fiber = false; to_main(); in_fiber = true; }
  int yield_env(int n) { if (!in_fiber) return 0; Fiber* f = fibers[cur]; pending_env = n; in_fiber = false; to_main(); in_fiber = true; (void)f; return env_answer; }
  void note_value(uint64_t v) { if (cur >= 0) { uint64_t& h = fibers[cur]->local_hash; h ^= v + 0x9e3779b97f4a7c15ULL + (h << 6) + (h >> 2); } }
  void op_boundary(uint64_t v) { if (cur >= 0) { fibers[cur]->local_hash = 0xcbf29ce484222325ULL ^ (v * 1099511628211ULL) ^ ((uint64_t)cur << 56); } }

  uint64_t full_hash() {
    uint64_t h = state_hash ? state_hash() : 0;
    for (auto* f : fibers) { h = (h ^ f->local_hash) * 1099511628211ULL; h ^= f->finished ? 0x5555 : 0xaaaa; }
    if (hash_last_running()) h ^= (uint64_t)(last_running + 1) * 0x9e3779b97f4a7c15ULL;      // who runs by default is part of the state when a bound is in force
    h ^= (uint64_t)deviations << 48;
    return h;
  }
  int next_choice(int nalt) { size_t pos = choices.size(); int c = 0; if (prefix && pos < prefix->size()) { c = (*prefix)[pos]; if (c < 0 || c >= nalt) { fprintf(stderr, "schedule replay diverged: choice %d of %d at position %zu\n", c, nalt, pos); abort(); } } choices.push_back(c); return c; }

  // runs one execution following prefix, default choice 0 afterwards
  void run(const std::vector<int>& pre) {
    for (auto* f : fibers) retire(f);
    fibers.clear(); points.clear(); choices.clear(); prefix = &pre; preemptions = 0; deviations = 0; last_running = -1; cur = -1; abort_run = false; pending_env = 0;
    self() = this;
    setup();
    bool deadlock = false, livelock = false;
    while (true) {
      std::vector<int> enabled; bool unfinished = false; for (size_t i = 0; i < fibers.size(); i++) if (!fibers[i]->finished) { unfinished = true; if (!fibers[i]->blocked_on || fibers[i]->blocked_on()) enabled.push_back((int)i); }
      if (enabled.empty()) { if (unfinished) { deadlock = true; deadlocks++; } break; }
      int chosen_thread;
      if (enabled.size() > 1) {
        Point p; p.kind = 0; p.running_enabled = false; p.alts.clear();
        for (int t : enabled) if (t == last_running) p.running_enabled = true;
        if (p.running_enabled) p.alts.push_back(last_running);
        for (int t : enabled) if (t != last_running) p.alts.push_back(t);
        p.nalt = (int)p.alts.size(); p.preempt_before = preemptions; p.dev_before = deviations; p.hash = use_hashing ? full_hash() : 0; p.fresh = true;
        bool beyond = choices.size() >= pre.size();
        if (use_hashing && beyond) {
          int remaining = hash_last_running() ? preempt_bound - preemptions : 1;   /* unbounded search: every arrival has the same (infinite) budget */ auto it = visited.find(p.hash);
          if (it != visited.end() && it->second >= remaining) { p.fresh = false; pruned++; abort_run = true; }
          else visited[p.hash] = remaining;
        }
        if (abort_run) { p.chosen = 0; points.push_back(p); choices.push_back(0); break; }
        p.chosen = next_choice(p.nalt); points.push_back(p);
        chosen_thread = p.alts[p.chosen];
        if (p.running_enabled && p.chosen != 0) preemptions++;
      } else chosen_thread = enabled[0];
      // run the chosen thread to its next scheduling point
      cur = chosen_thread; last_running = chosen_thread; in_fiber = true;
      to_fiber(cur);
      in_fiber = false;
      while (pending_env && !fibers[cur]->finished) {   // environment answers requested by the running thread
        int n = pending_env; pending_env = 0;
        Point p; p.kind = 1; p.nalt = (deviations < deviation_bound) ? n : 1; p.running_enabled = true; p.preempt_before = preemptions; p.dev_before = deviations; p.hash = 0; p.fresh = true; p.alts.clear();
        if (p.nalt > 1) {
          if (use_hashing && choices.size() >= pre.size()) {   // environment choice points are states too: the same state reached twice is expanded once
            p.hash = full_hash() ^ 0xE5E5E5E5ULL ^ ((uint64_t)cur << 20); int remaining = hash_last_running() ? preempt_bound - preemptions : 1;   /* unbounded search: every arrival has the same (infinite) budget */ auto it = visited.find(p.hash);
            if (it != visited.end() && it->second >= remaining) { p.fresh = false; pruned++; abort_run = true; p.chosen = 0; points.push_back(p); choices.push_back(0); break; }
            visited[p.hash] = remaining;
          }
          p.chosen = next_choice(p.nalt); points.push_back(p); env_answer = p.chosen; if (p.chosen) deviations++;
        } else env_answer = 0;
        in_fiber = true; to_fiber(cur); in_fiber = false;
      }
      if (abort_run) break;
      if (fibers[cur]->steps > step_cap) { livelock = true; break; }
    }
    cur = -1;
    executions++; points_total += (long)points.size();
    if (abort_run) { aborted_runs++; return; }
    if (livelock) livelocks++;
    if (check) check(deadlock, livelock);
  }

  void explore(const std::vector<int>& pre) {
    if (max_executions >= 0 && executions >= max_executions) { capped = true; return; }
    run(pre);
    std::vector<Point> pts = points; std::vector<int> ch = choices;   // copy: recursion overwrites the per-run state
    for (size_t i = pre.size(); i < pts.size(); i++) {
      const Point& p = pts[i];
      if (!p.fresh) break;
      for (int alt = 1; alt < p.nalt; alt++) {
        if (p.kind == 0) { int cost = p.preempt_before + (p.running_enabled ? 1 : 0); if (cost > preempt_bound) continue; }
        std::vector<int> np(ch.begin(), ch.begin() + i); np.push_back(alt);
        explore(np);
      }
    }
  }
  void explore_all() { visited.clear(); explore(std::vector<int>()); distinct_states = visited.size(); }
};

inline void point() { if (Explorer::self()) Explorer::self()->yield_point(); }
inline void wait_until(std::function<bool()> pred) { if (Explorer::self()) Explorer::self()->yield_blocked(pred); }
inline int env_choice(int n) { return Explorer::self() ? Explorer::self()->yield_env(n) : 0; }
inline void note(uint64_t v) { if (Explorer::self()) Explorer::self()->note_value(v); }

}  // namespace sched
