// C06: plane rotations, mixing matrix, basis changes, U-sandwiches, WeightedRotation, parameter store.
#define VF_EARLY
#include "bind.hpp"
#include <SQuIDS/const.h>
using namespace vf;
using squids::Const;

static long long g_idx = 0;
static const double PI = 3.14159265358979323846;

static Mat plane(int d, int i, int j, double th, double de) {
  Mat R = ref::eye(d);
  R(i, i) = std::cos(th); R(j, j) = std::cos(th);
  R(i, j) = std::sin(th) * std::exp(cd(0, -de)); R(j, i) = -std::sin(th) * std::exp(cd(0, de));
  return R;
}

struct Alpha { std::vector<std::vector<double>> vecs; std::vector<Mat> mats; };
static Alpha make_alpha(int d, bool reduced) {
  Alpha al; const ref::Basis& B = ref::basis(d);
  if (!reduced) for (int k = 0; k < d * d; k++) al.vecs.push_back(unit(d, k));
  else { al.vecs.push_back(unit(d, 0)); al.vecs.push_back(unit(d, 1)); al.vecs.push_back(unit(d, d * d - 1)); }
  for (int w = 0; w < 3; w++) al.vecs.push_back(probe(d, w));
  for (auto& v : al.vecs) al.mats.push_back(B.tomat(v));
  return al;
}

static void cmpvec(const std::string& sig, int d, const SU_vector& got, const Mat& wantM, double tol, const std::string& ctx) {
  const ref::Basis& B = ref::basis(d);
  std::vector<double> want = B.proj(wantM), g = comps(got);
  double e = maxdiff(g, want);
  maxstat(sig.substr(0, sig.find(':')) + "_err/tol", e / tol);
  if ((int)got.Dim() != d || !(e <= tol)) violation(sig + ":d=" + std::to_string(d), "{\"ctx\":" + ctx + ",\"got\":" + jarr(g) + ",\"want\":" + jarr(want) + ",\"err\":" + jnum(e) + ",\"tol\":" + jnum(tol) + "}");
}

static std::vector<double> B_proj_scaled(int d, const Mat& m, double sc) { std::vector<double> v = ref::basis(d).proj(m); for (auto& x : v) x *= sc; return v; }

int main(int argc, char** argv) {
  Args ar = parse(argc, argv); quiet_gsl();
  bool th = ar.thorough();
  std::vector<double> TH = {0, PI / 6, PI / 4, PI / 2, PI, -PI / 3, 2 * PI + 0.1, 1.0, -2.7};
  std::vector<double> TH4 = {0, PI / 2, 1.0, -2.7};
  // ---- (1) plane rotations: all 35 (d,i,j) kernels ----
  for (int d = 2; d <= 6; d++) {
    Alpha al = make_alpha(d, ar.reduced);
    const std::vector<double>& TT = (th || d <= 4) && !ar.reduced ? TH : TH4;
    std::vector<double> TTt = TT; if (!ar.reduced) { TTt.push_back(1e-9); TTt.push_back(-3e-8); TTt.push_back(2 * PI - 2e-9); TTt.push_back(1e9); TTt.push_back(-3e12); TTt.push_back(1e15); }   // and angles of many turns: every real angle is a legal parameter   // small angles: cos(theta) rounds to 1, the rotation is not the identity
    for (int i = 0; i < d; i++) for (int j = i + 1; j < d; j++) for (double t : TTt) for (double de : TT) {
      Mat R = plane(d, i, j, t, de), Rd = ref::dagger(R);
      for (size_t a = 0; a < al.vecs.size(); a++) {
        count("evaluations");
        { uint64_t h = hashvec(al.vecs[a], d * 100 + i * 10 + j); h = ref::fnv(&t, 8, h); h = ref::fnv(&de, 8, h); if (t != 0) distinct(h); }
        sample_every(g_idx++, 50021, J().str("entry", "Rotate(i,j,theta,delta)").i("d", d).i("i", i).i("j", j).num("theta", t).num("delta", de).arr("A", al.vecs[a]).done());
        SU_vector v = mkvec(d, al.vecs[a]);
        SU_vector r = v.Rotate((unsigned)i, (unsigned)j, t, de);
        std::string ctx = J().i("i", i).i("j", j).num("theta", t).num("delta", de).arr("A", al.vecs[a]).done();
        cmpvec("Rotate(i,j):not-RdaggerAR", d, r, Rd * al.mats[a] * R, 64 * d * ref::EPS * maxabs(al.vecs[a]), ctx);
        if (a + 3 >= al.vecs.size() && (&de == &TT[0] || &de == &TT[2 % TT.size()])) {   // probes: the rotated vector is a temporary / the result lands in targets of every kind; huge and tiny magnitudes (the map is linear)
          Mat want = Rd * al.mats[a] * R; double tl = 64 * d * ref::EPS * maxabs(al.vecs[a]); count("evaluations");
          { SU_vector r2 = SU_vector(v).Rotate((unsigned)i, (unsigned)j, t, de); cmpvec("Rotate(i,j):temporary-operand", d, r2, want, tl, ctx); }
          { SU_vector c = v; SU_vector r2 = std::move(c).Rotate((unsigned)i, (unsigned)j, t, de); cmpvec("Rotate(i,j):moved-operand", d, r2, want, tl, ctx); }
          { SU_vector tg(d == 2 ? 3 : 2); tg = v.Rotate((unsigned)i, (unsigned)j, t, de); cmpvec("Rotate(i,j):assigned-to-other-size", d, tg, want, tl, ctx); SU_vector ts(d); ts = SU_vector(v).Rotate((unsigned)i, (unsigned)j, t, de); cmpvec("Rotate(i,j):temporary-assigned-to-same-size", d, ts, want, tl, ctx); }
          for (double sc : {1e150, 1e-150}) { SU_vector big = mkvec(d, scaled(al.vecs[a], sc)); SU_vector rb = big.Rotate((unsigned)i, (unsigned)j, t, de); std::vector<double> g = comps(rb), wv = B_proj_scaled(d, want, sc); double e = maxdiff(g, wv);
            if (!(e <= tl * sc)) violation("Rotate(i,j):not-homogeneous:d=" + std::to_string(d), "{\"ctx\":" + ctx + ",\"scale\":" + jnum(sc) + ",\"err\":" + jnum(e) + "}"); }
        }
      }
    }
  }
  // ---- (2) mixing matrices and basis changes ----
  struct PSet { std::vector<double> th, de; std::string name; };  // indexed [i*6+j]
  std::vector<PSet> sets;
  { PSet z; z.th.assign(36, 0); z.de.assign(36, 0); z.name = "all-zero"; sets.push_back(z); }
  for (int i = 0; i < 6; i++) for (int j = i + 1; j < 6; j++) for (double t : TH4) for (double de : TH4) {
    if (t == 0 && de == 0) continue;
    if (ar.reduced && !(i == 0 && j == 1) && !(i == 4 && j == 5)) continue;
    if (!th && (de == PI / 2)) continue;
    PSet p; p.th.assign(36, 0); p.de.assign(36, 0); p.th[i * 6 + j] = t; p.de[i * 6 + j] = de; p.name = fmt("single(%d,%d,%.3g,%.3g)", i, j, t, de); sets.push_back(p);
  }
  // small angles (cos(theta) rounds to 1.0 but sin(theta) does not vanish): one pair at a time, and all pairs together
  for (int i = 0; i < 6; i++) for (int j = i + 1; j < 6; j++) for (double t : {1e-9, -3e-8}) for (double de : {0.0, 1.0}) {
    if (ar.reduced && !(i == 0 && j == 1) && !(i == 4 && j == 5)) continue;
    PSet p; p.th.assign(36, 0); p.de.assign(36, 0); p.th[i * 6 + j] = t; p.de[i * 6 + j] = de; p.name = fmt("single-small(%d,%d,%.3g,%.3g)", i, j, t, de); sets.push_back(p);
  }
  for (int i = 0; i < 6; i++) for (int j = i + 1; j < 6; j++) for (double t : {1e9, -3e12}) for (double de : {0.0, 1e15}) {   // many turns
    if (ar.reduced && !(i == 0 && j == 1)) continue; if (!th && (i + j) % 3) continue;
    PSet p; p.th.assign(36, 0); p.de.assign(36, 0); p.th[i * 6 + j] = t; p.de[i * 6 + j] = de; p.name = fmt("single-large(%d,%d,%.3g,%.3g)", i, j, t, de); sets.push_back(p);
  }
  { PSet p; p.th.assign(36, 0); p.de.assign(36, 0); for (int i = 0; i < 6; i++) for (int j = i + 1; j < 6; j++) { p.th[i * 6 + j] = 1e-9 * (1 + i + 2 * j) * ((i + j) % 2 ? -1 : 1); p.de[i * 6 + j] = 0.3 * j; } p.name = "all-pairs-small"; sets.push_back(p); }
  // exactly two mixed planes, every choice of the two (sparse patterns: 3+1-like layouts); and three planes sharing a level
  if (!ar.reduced) { std::vector<std::pair<int, int>> PL; for (int i = 0; i < 6; i++) for (int j = i + 1; j < 6; j++) PL.push_back({i, j});
    for (size_t a = 0; a < PL.size(); a++) for (size_t b = a + 1; b < PL.size(); b++) { if (!th && PL[b].second == 5 && PL[a].second == 5 && PL[a].first > 1) continue;
      PSet p; p.th.assign(36, 0); p.de.assign(36, 0); p.th[PL[a].first * 6 + PL[a].second] = 0.7; p.de[PL[a].first * 6 + PL[a].second] = 0.4; p.th[PL[b].first * 6 + PL[b].second] = -1.1; p.de[PL[b].first * 6 + PL[b].second] = (a + b) % 2 ? 0.0 : 2.0;
      p.name = fmt("two-planes(%d%d,%d%d)", PL[a].first, PL[a].second, PL[b].first, PL[b].second); sets.push_back(p); }
    for (int l = 0; l < 6; l++) { PSet p; p.th.assign(36, 0); p.de.assign(36, 0); int cnt = 0; for (int m = 0; m < 6 && cnt < 3; m++) if (m != l) { int i = std::min(l, m), j = std::max(l, m); p.th[i * 6 + j] = 0.5 + 0.3 * cnt; cnt++; } p.name = fmt("three-planes-through-level-%d", l); sets.push_back(p); } }
  for (int w = 0; w < 3; w++) { PSet p; p.th.assign(36, 0); p.de.assign(36, 0); for (int i = 0; i < 6; i++) for (int j = i + 1; j < 6; j++) { p.th[i * 6 + j] = 0.3 + 0.41 * i + 0.17 * j + 0.9 * w; p.de[i * 6 + j] = (w == 0) ? 0.0 : -0.7 + 0.23 * i * j + 0.5 * w; } p.name = fmt("all-pairs-%d", w); sets.push_back(p); }
  if (ar.shard == 0) count("parameter_sets", (long long)sets.size());
  for (size_t si = 0; si < sets.size(); si++) {
    if ((long long)(si % ar.nshards) != ar.shard) continue;
    const PSet& ps = sets[si];
    Const par, par2;
    for (int i = 0; i < 6; i++) for (int j = i + 1; j < 6; j++) { par.SetMixingAngle(i, j, ps.th[i * 6 + j]); par.SetPhase(i, j, ps.de[i * 6 + j]); par2.SetMixingAngle(i, j, ps.th[((i + 1) % 5) * 6 + 5] * 0.5 + 0.2); par2.SetPhase(i, j, 0.1 * j); }
    for (int d = 2; d <= 6; d++) {
      const ref::Basis& B = ref::basis(d);
      Alpha al = make_alpha(d, ar.reduced || (!th && d >= 5) || ps.name.compare(0, 4, "two-") == 0 || ps.name.compare(0, 6, "three-") == 0);
      auto Ug = par.GetTransformationMatrix(d); auto Wg = par2.GetTransformationMatrix(d);
      Mat U = gsl2mat(Ug.get()), Ud = ref::dagger(U), W = gsl2mat(Wg.get()), Wd = ref::dagger(W);
      count("evaluations");
      double un = ref::maxabs(Ud * U - ref::eye(d));
      maxstat("unitarity_defect/tol", un / (32 * d * ref::EPS));
      std::string pctx = J().str("params", ps.name).i("d", d).done();
      if (!(un <= 32 * d * ref::EPS)) violation("GetTransformationMatrix:not-unitary:d=" + std::to_string(d), pctx);
      int nrot = d * (d - 1) / 2;
      std::vector<double> yd(d * d, 0.0); { std::vector<double> y(d); for (int i = 0; i < d; i++) y[i] = 0.5 + 0.3 * i * (i % 2 ? -1 : 1); yd = B.proj(ref::diag(y)); }
      SU_vector Yd = mkvec(d, yd); Mat Y = B.tomat(yd);
      for (size_t a = 0; a < al.vecs.size(); a++) {
        count("evaluations");
        { uint64_t h = hashvec(al.vecs[a], d); h = ref::fnv(ps.name.data(), ps.name.size(), h); if (si > 0) distinct(h); }
        sample_every(g_idx++, 9973, J().str("entry", "RotateToB1/B0, Rotate(U), UTransform, UDaggerTransform, WeightedRotation").str("params", ps.name).i("d", d).arr("A", al.vecs[a]).done());
        const Mat& A = al.mats[a];
        double amag = maxabs(al.vecs[a]), tol = 64 * d * ref::EPS * amag * (nrot + 1);
        std::string ctx = J().str("params", ps.name).arr("A", al.vecs[a]).done();
        Mat wantB1 = Ud * A * U, wantB0 = U * A * Ud;
        SU_vector v1 = mkvec(d, al.vecs[a]); v1.RotateToB1(par); cmpvec("RotateToB1:not-UdaggerAU", d, v1, wantB1, tol, ctx);
        SU_vector v0 = mkvec(d, al.vecs[a]); v0.RotateToB0(par); cmpvec("RotateToB0:not-UAUdagger", d, v0, wantB0, tol, ctx);
        SU_vector back = v1; back.RotateToB0(par); cmpvec("RotateToB0(RotateToB1):not-identity", d, back, A, 2 * tol, ctx);
        SU_vector v = mkvec(d, al.vecs[a]);
        SU_vector r1 = v.Rotate(Ug.get()); cmpvec("Rotate(U):not-B1", d, r1, wantB1, tol, ctx);
        SU_vector r2 = v.UTransform(Ug.get()); cmpvec("UTransform(U):not-B1", d, r2, wantB1, tol, ctx);
        SU_vector r3 = v.UDaggerTransform(Ug.get()); cmpvec("UDaggerTransform(U):not-B0", d, r3, wantB0, tol, ctx);
        if (a + 3 >= al.vecs.size()) {   // the transformed vector is a temporary; results assigned into targets of another size
          { SU_vector q = SU_vector(v).Rotate(Ug.get()); cmpvec("Rotate(U):temporary-operand", d, q, wantB1, tol, ctx); }
          { SU_vector q = SU_vector(v).UTransform(Ug.get()); cmpvec("UTransform(U):temporary-operand", d, q, wantB1, tol, ctx); }
          { SU_vector q = SU_vector(v).UDaggerTransform(Ug.get()); cmpvec("UDaggerTransform(U):temporary-operand", d, q, wantB0, tol, ctx); }
          { SU_vector tg(d == 2 ? 3 : 2); tg = v.UTransform(Ug.get()); cmpvec("UTransform(U):assigned-to-other-size", d, tg, wantB1, tol, ctx); SU_vector te; te = SU_vector(v).UDaggerTransform(Ug.get()); cmpvec("UDaggerTransform(U):temporary-assigned-to-empty", d, te, wantB0, tol, ctx); }
          { SU_vector q = mkvec(d, al.vecs[a]); SU_vector tmp = SU_vector(q); tmp.RotateToB1(par); cmpvec("RotateToB1:on-a-copy", d, tmp, wantB1, tol, ctx); }
          for (double sc : {1e9, 1e12, 1e150, 1e-150}) {   // every map is linear: the same vector scaled by sc must give the scaled result, through every entry point
            SU_vector big = mkvec(d, scaled(al.vecs[a], sc)); std::vector<double> w1 = B_proj_scaled(d, wantB1, sc), w0 = B_proj_scaled(d, wantB0, sc); double tl = tol * sc; count("evaluations");
            try { SU_vector q1 = big.Rotate(Ug.get()), q2 = big.UTransform(Ug.get()), q3 = big.UDaggerTransform(Ug.get()); SU_vector q4 = big; q4.RotateToB1(par); SU_vector q5 = big; q5.RotateToB0(par);
              double e = std::max(std::max(maxdiff(comps(q1), w1), maxdiff(comps(q2), w1)), std::max(maxdiff(comps(q3), w0), std::max(maxdiff(comps(q4), w1), maxdiff(comps(q5), w0))));
              if (!(e <= tl)) violation("basis-change:not-homogeneous:d=" + std::to_string(d), "{\"ctx\":" + ctx + ",\"scale\":" + jnum(sc) + ",\"err\":" + jnum(e) + ",\"tol\":" + jnum(tl) + "}");
              SU_vector x1 = big, x2 = big; x1.WeightedRotation(par, Yd, par2); x2.WeightedRotation(Ug.get(), Yd, Wg.get()); double ew = maxdiff(comps(x1), comps(x2));
              double wtol_s = 2 * tol * (1 + 16 * maxabs(yd) * maxabs(yd)) * d * sc;
              if (!(ew <= wtol_s)) violation("WeightedRotation:overloads-disagree:scaled-vector:d=" + std::to_string(d), "{\"ctx\":" + ctx + ",\"scale\":" + jnum(sc) + ",\"err\":" + jnum(ew) + "}"); }
            catch (const std::exception& ex) { violation("basis-change:throws-for-scaled-vector:d=" + std::to_string(d), "{\"ctx\":" + ctx + ",\"scale\":" + jnum(sc) + ",\"what\":" + jstr(ex.what()) + "}"); }
          }
          count("evaluations");
        }
        if (a + 3 >= al.vecs.size()) {   // the same U as a strided view inside a larger matrix
          gsl_matrix_complex* big = gsl_matrix_complex_alloc(8, 9); gsl_matrix_complex_set_all(big, gsl_complex_rect(3.5, 1.25));
          gsl_matrix_complex_view vw = gsl_matrix_complex_submatrix(big, 2, 1, d, d); gsl_matrix_complex_memcpy(&vw.matrix, Ug.get());
          SU_vector s1 = v.Rotate(&vw.matrix), s2 = v.UTransform(&vw.matrix), s3 = v.UDaggerTransform(&vw.matrix); count("evaluations");
          if (maxdiff(comps(s1), comps(r1)) != 0 || maxdiff(comps(s2), comps(r2)) != 0 || maxdiff(comps(s3), comps(r3)) != 0) violation("U-sandwich:strided-view-differs-from-contiguous:d=" + std::to_string(d), ctx);
          gsl_matrix_complex_free(big); }
        // invariants: identity component and scalar products
        for (const SU_vector* r : {&v1, &v0, &r1, &r2, &r3}) if (!(std::fabs((*r)[0] - al.vecs[a][0]) <= tol)) violation("basis-change:identity-component-not-preserved:d=" + std::to_string(d), ctx);
        { SU_vector p0 = mkvec(d, probe(d, 0)), q = p0; q.RotateToB1(par); double before = v * p0, after = v1 * q; if (!(std::fabs(before - after) <= 4 * d * d * tol * maxabs(probe(d, 0)))) violation("basis-change:scalar-product-not-preserved:d=" + std::to_string(d), ctx); }
        // WeightedRotation: both overloads agree (and equal W^dagger Y (V A V^dagger) Y W)
        SU_vector w1 = mkvec(d, al.vecs[a]), w2 = mkvec(d, al.vecs[a]);
        w1.WeightedRotation(par, Yd, par2); w2.WeightedRotation(Ug.get(), Yd, Wg.get());
        double ymag = maxabs(yd) * maxabs(yd) * 16, wtol = 2 * tol * (1 + ymag) * d;
        double e = maxdiff(comps(w1), comps(w2));
        maxstat("WeightedRotation_agree/tol", e / wtol);
        if (!(e <= wtol)) violation("WeightedRotation:overloads-disagree:d=" + std::to_string(d), "{\"ctx\":" + ctx + ",\"const\":" + jarr(comps(w1)) + ",\"matrix\":" + jarr(comps(w2)) + "}");
        double eref = maxdiff(comps(w1), B.proj(Wd * Y * (U * A * Ud) * Y * W));
        maxstat("WeightedRotation_vs_reference/tol", eref / wtol);
        // Yd is taken by const reference and may be the rotated vector itself: the overloads must still agree
        if (a + 3 >= al.vecs.size()) {
          SU_vector x1 = mkvec(d, al.vecs[a]), x2 = mkvec(d, al.vecs[a]);
          x1.WeightedRotation(par, x1, par2); x2.WeightedRotation(Ug.get(), x2, Wg.get());
          double am2 = amag * amag * 16, xtol = 2 * tol * (1 + am2) * d;
          double ea = maxdiff(comps(x1), comps(x2));
          count("evaluations");
          if (!(ea <= xtol)) violation("WeightedRotation:overloads-disagree-when-Yd-aliases-the-vector:d=" + std::to_string(d), "{\"ctx\":" + ctx + ",\"const\":" + jarr(comps(x1)) + ",\"matrix\":" + jarr(comps(x2)) + "}");
        }
      }
    }
  }
  // ---- (2a) general unitary matrices (determinant != 1, column phases, permutations, reflections, eigenvector matrices): the
  //      matrix entry points are not restricted to the special-unitary products that Const builds
  if (ar.shard == 0) for (int d = 2; d <= 6; d++) {
    const ref::Basis& B = ref::basis(d); Alpha al = make_alpha(d, true);
    Const par; for (int i = 0; i < d; i++) for (int j = i + 1; j < d; j++) { par.SetMixingAngle(i, j, 0.3 + 0.41 * i + 0.17 * j); par.SetPhase(i, j, -0.7 + 0.23 * i * j); }
    Mat U0 = gsl2mat(par.GetTransformationMatrix(d).get());
    std::vector<std::pair<std::string, Mat>> Us;
    { Mat D(d); for (int k = 0; k < d; k++) D(k, k) = std::exp(cd(0, 0.4 + 0.9 * k)); Us.push_back({"column-phases", U0 * D}); Us.push_back({"row-phases", D * U0}); }
    { Mat P(d); for (int k = 0; k < d; k++) P(k, (k + 1) % d) = 1; Us.push_back({"cyclic-permutation", P}); Mat S = ref::eye(d); S(0, 0) = 0; S(1, 1) = 0; S(0, 1) = 1; S(1, 0) = 1; Us.push_back({"swap", S}); }
    { Mat R = ref::eye(d); R(d - 1, d - 1) = -1; Us.push_back({"reflection", R * U0}); Us.push_back({"global-phase", cd(std::cos(1.1), std::sin(1.1)) * U0}); }
    { SU_vector h = mkvec(d, probe(d, 0)); auto es = h.GetEigenSystem(true); Us.push_back({"eigenvector-matrix", gsl2mat(es.second.get())}); }
    for (auto& nu : Us) {
      const Mat& U = nu.second; Mat Ud = ref::dagger(U); GslMat Ug(U);
      double un = ref::maxabs(Ud * U - ref::eye(d)); if (!(un <= 1e-12)) { violation("harness:general-unitary-not-unitary", J().str("kind", nu.first).i("d", d).done()); continue; }
      std::vector<double> yd(d * d, 0.0); { std::vector<double> y(d); for (int i = 0; i < d; i++) y[i] = 0.5 + 0.3 * i * (i % 2 ? -1 : 1); yd = B.proj(ref::diag(y)); } SU_vector Yd = mkvec(d, yd); Mat Y = B.tomat(yd);
      for (size_t a = 0; a < al.vecs.size(); a++) {
        count("evaluations"); distinct(hashvec(al.vecs[a], d) ^ ref::fnv(nu.first.data(), nu.first.size(), 77));
        const Mat& A = al.mats[a]; double tol = 256 * d * ref::EPS * maxabs(al.vecs[a]);
        std::string ctx = J().str("unitary", nu.first).i("d", d).arr("A", al.vecs[a]).done();
        SU_vector v = mkvec(d, al.vecs[a]);
        SU_vector r1 = v.Rotate(Ug.g); cmpvec("Rotate(U):general-unitary", d, r1, Ud * A * U, tol, ctx);
        SU_vector r2 = v.UTransform(Ug.g); cmpvec("UTransform(U):general-unitary", d, r2, Ud * A * U, tol, ctx);
        SU_vector r3 = v.UDaggerTransform(Ug.g); cmpvec("UDaggerTransform(U):general-unitary", d, r3, U * A * Ud, tol, ctx);
        SU_vector back = r2.UDaggerTransform(Ug.g); cmpvec("UDaggerTransform(UTransform):general-unitary", d, back, A, 2 * tol, ctx);
        SU_vector w2 = mkvec(d, al.vecs[a]); w2.WeightedRotation(Ug.g, Yd, Ug.g);
        cmpvec("WeightedRotation(matrix):general-unitary", d, w2, Ud * Y * (U * A * Ud) * Y * U, 8 * tol * (1 + 16 * maxabs(yd) * maxabs(yd)) * d, ctx);
      }
    }
  }
  // ---- (2b) one Const object through a history of updates: the matrix must always be the one of the CURRENT parameters ----
  if (ar.shard == 0) {
    struct Upd { int kind; unsigned i, j; double v; };  // 0 angle, 1 phase
    std::vector<Upd> hist = {{0, 0, 1, 0.6}, {1, 0, 1, 0.9}, {1, 0, 1, -1.3}, {0, 1, 2, -0.8}, {1, 1, 2, 0.4}, {1, 0, 2, 2.2}, {0, 0, 2, 0.5}, {1, 0, 2, -0.7}, {1, 3, 5, 1.1}, {0, 3, 5, 0.9}, {1, 3, 5, 0.2}, {0, 0, 1, 0.0}, {1, 0, 1, 0.3}, {0, 0, 1, 1.2}};
    // two query patterns: the same dimension asked again and again on one object (dloop = 0: one object per dimension), and all
    // dimensions asked in turn after every update (dloop = 1)
    for (int dloop = 0; dloop < 2; dloop++) for (int dfix = 2; dfix <= (dloop ? 2 : 6); dfix++) { Const par;
    for (size_t step = 0; step < hist.size(); step++) {
      const Upd& u = hist[step]; if (u.kind == 0) par.SetMixingAngle(u.i, u.j, u.v); else par.SetPhase(u.i, u.j, u.v);
      for (int d = (dloop ? 2 : dfix); d <= (dloop ? 6 : dfix); d++) {
        count("evaluations"); distinct(ref::fnv(&step, sizeof step, 4242 + d));
        // the same parameters stored into a brand-new object must give the same matrix
        Const fresh; for (unsigned i = 0; i < 6; i++) for (unsigned j = i + 1; j < 6; j++) { fresh.SetMixingAngle(i, j, par.GetMixingAngle(i, j)); fresh.SetPhase(i, j, par.GetPhase(i, j)); }
        auto U1 = par.GetTransformationMatrix(d); auto U2 = fresh.GetTransformationMatrix(d);
        double e = ref::maxabs(gsl2mat(U1.get()) - gsl2mat(U2.get()));
        SU_vector p1 = mkvec(d, probe(d, 0)), p2 = p1; p1.RotateToB1(par); SU_vector viaU = p2.Rotate(U1.get());
        double e2 = maxdiff(comps(p1), comps(viaU)), tol2 = 64 * d * ref::EPS * maxabs(probe(d, 0)) * (d * (d - 1) / 2 + 1);
        if (!(e == 0) || !(e2 <= tol2)) violation("GetTransformationMatrix:stale-after-parameter-update:d=" + std::to_string(d), J().i("d", d).i("update_step", (long long)step).str("update", u.kind ? "SetPhase" : "SetMixingAngle").i("i", u.i).i("j", u.j).num("value", u.v).num("matrix_diff_vs_fresh_object", e).num("Rotate(U)_vs_RotateToB1", e2).done());
      }
    }
    }
  }
  // ---- (3) parameter store ----
  if (ar.shard == 0) {
    Const c;
    for (unsigned i = 0; i <= 8; i++) for (unsigned j = 0; j <= 8; j++) {
      count("evaluations"); distinct(ref::fnv(&i, 4, 1000 + j));
      bool okA = i < j && i < 5 && j < 6, okP = i < j && j < 6;
      double va = 0.123 + i * 0.77 - j * 1.3, vp = -2.0 + 0.31 * i + j;
      bool threw = false; try { c.SetMixingAngle(i, j, va); } catch (const std::exception&) { threw = true; }
      if (threw == okA) violation("SetMixingAngle:index-validation", J().i("i", i).i("j", j).i("threw", threw).done());
      threw = false; double g = 0; try { g = c.GetMixingAngle(i, j); } catch (const std::exception&) { threw = true; }
      if (threw == okA || (okA && !ref::biteq(g, va))) violation("GetMixingAngle:readback", J().i("i", i).i("j", j).i("threw", threw).num("got", g).num("stored", va).done());
      threw = false; try { c.SetPhase(i, j, vp); } catch (const std::exception&) { threw = true; }
      if (threw == okP) violation("SetPhase:index-validation", J().i("i", i).i("j", j).i("threw", threw).done());
      threw = false; try { g = c.GetPhase(i, j); } catch (const std::exception&) { threw = true; }
      if (threw == okP || (okP && !ref::biteq(g, vp))) violation("GetPhase:readback", J().i("i", i).i("j", j).i("threw", threw).num("got", g).num("stored", vp).done());
    }
    for (unsigned u = 0; u <= 8; u++) {
      count("evaluations"); bool ok = u >= 1 && u < 6; double v = 1e-3 * (u + 1) * 7.5, g = 0;
      bool threw = false; try { c.SetEnergyDifference(u, v); } catch (const std::exception&) { threw = true; }
      if (threw == ok) violation("SetEnergyDifference:index-validation", J().i("upper", u).i("threw", threw).done());
      threw = false; try { g = c.GetEnergyDifference(u); } catch (const std::exception&) { threw = true; }
      if (threw == ok || (ok && !ref::biteq(g, v))) violation("GetEnergyDifference:readback", J().i("upper", u).i("threw", threw).done());
    }
    // independence: all stored values still read back after all the stores above
    for (unsigned i = 0; i < 6; i++) for (unsigned j = i + 1; j < 6; j++) {
      if (i < 5 && !ref::biteq(c.GetMixingAngle(i, j), 0.123 + i * 0.77 - j * 1.3)) violation("GetMixingAngle:overwritten-by-other-store", J().i("i", i).i("j", j).done());
      if (!ref::biteq(c.GetPhase(i, j), -2.0 + 0.31 * i + j)) violation("GetPhase:overwritten-by-other-store", J().i("i", i).i("j", j).done());
    }
    for (unsigned u = 1; u < 6; u++) if (!ref::biteq(c.GetEnergyDifference(u), 1e-3 * (u + 1) * 7.5)) violation("GetEnergyDifference:overwritten-by-other-store", J().i("upper", u).done());
  }
  check_early({6});
  finish();
  return 0;
}
