// C10: evolved state and clock depend only on elapsed time, not on the call history.
// Explicit enumeration of all operation histories up to a depth (no state merging: values matter),
// replayed on fresh solver objects, checked after every operation against a piecewise closed-form model.
#include "solver.hpp"
#include <memory>
#include <limits>
#include <chrono>
using namespace vf;

enum OpKind { EV0, EV3, EV7, EVS, TG0, TG1, TG2, TG3, TG4, ANY_OFF, ANY_ON, ST_RKF45, ST_RK4, ST_MSADAMS, ADAPT_TOGGLE, TOL_TOGGLE, HMIN_TOGGLE, HMAX_TOGGLE, MOVE_CTOR, MOVE_ASSIGN_FRESH, MOVE_ASSIGN_USED, MOVE_ASSIGN_REUSE_SOURCE, REINIT, NOPS };
static const char* OPNAME[] = {"Evolve(0)", "Evolve(0.3)", "Evolve(0.7)", "Evolve(5e-4)", "toggle-Coherent", "toggle-NonCoherent", "toggle-OtherRho", "toggle-GammaScalar", "toggle-OtherScalar", "AnyNumerics(false)", "AnyNumerics(true)",
                               "stepper-rkf45", "stepper-rk4", "stepper-msadams", "toggle-adaptive", "toggle-tolerance", "toggle-h_min(1e-3)", "toggle-h_max(0.05)", "move-construct", "move-assign-into-fresh", "move-assign-into-used", "move-assign-then-reuse-the-source", "re-ini"};

struct Model {
  Problem P; double tini, t; std::vector<double> y; bool any; int stepper; bool adaptive; bool tight; bool hmin_raised; bool hmax_lowered; bool refused; int segments; double clock_slack;
};

static std::string hist_str(const std::vector<int>& h, int nsun) { std::string s = "nsun=" + std::to_string(nsun) + ":"; for (size_t i = 0; i < h.size(); i++) { if (i) s += ","; s += std::to_string(h[i]); } return s; }
static std::string hist_names(const std::vector<int>& h) { std::string s = "["; for (size_t i = 0; i < h.size(); i++) { if (i) s += ","; s += jstr(OPNAME[h[i]]); } return s + "]"; }

static bool enabled(const Model& m, int op) {
  if (op == ST_MSADAMS && !m.adaptive) return false;   // msadams only in adaptive mode (quantifier of C04/C10)
  if (op == ADAPT_TOGGLE && m.adaptive && m.stepper == 2) return false;
  return true;
}

static const gsl_odeiv2_step_type* steptype(int s) { return s == 0 ? gsl_odeiv2_step_rkf45 : (s == 1 ? gsl_odeiv2_step_rk4 : gsl_odeiv2_step_msadams); }

// runs one history; returns false if the history contains a disabled op (not a member of the space)
static bool run_history(const std::vector<int>& h, int nsun, bool report) {
  Model m; m.P.nx = 2; m.P.d = nsun; m.P.nrho = 1; m.P.nsc = 1; m.P.family = 0; m.P.kappa = 0.3; m.P.kappa2 = 0.0;
  bool sw0[5] = {true, false, false, true, false}; for (int b = 0; b < 5; b++) m.P.sw[b] = sw0[b];
  m.tini = 0.5; m.t = 0.5; m.y = probe_state(m.P, 0); m.any = true; m.stepper = 0; m.adaptive = true; m.tight = true; m.hmin_raised = false; m.hmax_lowered = false; m.refused = false; m.segments = 0; m.clock_slack = 0;
  std::unique_ptr<Probe> cur(new Probe(m.P, m.tini));
  cur->Set_rel_error(1e-10); cur->Set_abs_error(1e-10); cur->Set_h(1e-4); cur->Set_NumSteps(400);
  cur->set_flat(m.y);
  std::string hs = hist_str(h, nsun);
  set_case(hs);
  auto viol = [&](const std::string& sig, size_t step, const std::string& extra) {
    if (report) violation(sig, "{\"replay\":" + jstr(hs) + ",\"history\":" + hist_names(h) + ",\"failing_step\":" + std::to_string(step) + ",\"nsun\":" + std::to_string(nsun) + extra + "}");
  };
  for (size_t i = 0; i < h.size(); i++) {
    int op = h[i];
    if (!enabled(m, op)) return false;
    // after a refused Evolve the object's state is whatever the failed attempt left; the one thing the property still promises is
    // that re-initialisation gives a fresh clock, state and views
    if (m.refused) { if (op != REINIT) return true; m.refused = false; count("reinit_after_refused_evolve"); }
    count("transitions");
    switch (op) {
      case EV0: case EV3: case EV7: case EVS: {
        double dt = op == EV0 ? 0.0 : (op == EV3 ? 0.3 : (op == EV7 ? 0.7 : 5e-4));   // 5e-4 is shorter than the raised minimum step: the interval is still to be integrated
        std::vector<double> before = cur->get_flat(); long pre0 = cur->log.pre; cur->log.times.clear();
        try { cur->Evolve(dt); }
        catch (const std::exception& ex) {
          // with the minimum step raised by the user the adaptive controller may be unable to meet the tolerance: reporting that is correct
          if (m.hmin_raised && m.any && m.adaptive && dt > 0) { count("evolve_refused_under_raised_h_min"); m.refused = true; break; }
          viol(std::string("Evolve:throws:dt=") + (dt == 0 ? "0" : "positive") + (m.adaptive ? ":adaptive" : ":fixed"), i, ",\"what\":" + jstr(ex.what())); return true;
        }
        double t1 = m.t + dt;
        if (m.any) { Problem q = m.P; m.y = q.exact(m.y, m.t, t1); m.segments++; }
        m.t = t1;
        std::vector<double> got = cur->get_flat();
        // rounding allowance: 4 ulp per segment, plus one rounding per fixed step (the clock is advanced nsteps times)
        m.clock_slack += (4.0 + (m.any && !m.adaptive ? 400 : 0)) * ref::EPS * (std::fabs(m.t) + 1);
        if (!(std::fabs(cur->Get_t() - m.t) <= m.clock_slack)) viol("Evolve:clock-not-tini-plus-sum-dt", i, ",\"t\":" + jnum(cur->Get_t()) + ",\"expected\":" + jnum(m.t));
        if (!(std::fabs(cur->Get_t_initial() - m.tini) == 0)) viol("Evolve:t_initial-changed", i, "");
        if (!m.any) {
          bool same = got.size() == before.size(); for (size_t k = 0; same && k < got.size(); k++) if (!ref::biteq(got[k], before[k])) same = false;
          if (!same) viol("Evolve:no-numerics-changed-state", i, "");
          if (cur->log.pre != pre0 + 1 || !(cur->log.last_pre_t == cur->Get_t())) viol("Evolve:no-numerics-PreDerive-not-called-once-with-new-time", i, ",\"calls\":" + std::to_string(cur->log.pre - pre0) + ",\"time\":" + jnum(cur->log.last_pre_t));
        }
        double scale = std::max(1.0, maxabs(m.y)), tol = 1e-6 * scale * std::max(1, m.segments), e = maxdiff(got, m.y);
        maxstat("state_err/tol", e / tol);
        if (!(e <= tol)) viol("Evolve:state-depends-on-history", i, ",\"err\":" + jnum(e) + ",\"tol\":" + jnum(tol) + ",\"got\":" + jarr(got) + ",\"want\":" + jarr(m.y));
        if (!cur->views_coincide()) viol("Evolve:in-step-view-not-realiased-to-stored-state", i, "");
        if (cur->log.last_this && cur->log.last_this != cur.get()) viol("Evolve:callbacks-invoked-on-another-object", i, "");
      } break;
      case TG0: case TG1: case TG2: case TG3: case TG4: {
        int b = op - TG0; m.P.sw[b] = !m.P.sw[b]; cur->P.sw[b] = m.P.sw[b];
        if (b == 0) cur->Set_CoherentRhoTerms(m.P.sw[b]); else if (b == 1) cur->Set_NonCoherentRhoTerms(m.P.sw[b]); else if (b == 2) cur->Set_OtherRhoTerms(m.P.sw[b]); else if (b == 3) cur->Set_GammaScalarTerms(m.P.sw[b]); else cur->Set_OtherScalarTerms(m.P.sw[b]);
        m.any = m.P.sw[0] || m.P.sw[1] || m.P.sw[2] || m.P.sw[3] || m.P.sw[4];
      } break;
      case ANY_OFF: cur->Set_AnyNumerics(false); m.any = false; break;
      case ANY_ON: cur->Set_AnyNumerics(true); m.any = true; break;
      case ST_RKF45: case ST_RK4: case ST_MSADAMS: m.stepper = op - ST_RKF45; cur->Set_GSL_step(steptype(m.stepper)); break;
      case ADAPT_TOGGLE: m.adaptive = !m.adaptive; cur->Set_AdaptiveStep(m.adaptive); break;
      case HMIN_TOGGLE: m.hmin_raised = !m.hmin_raised; if (m.hmin_raised) cur->Set_h_min(1e-3); else { cur->Set_h_min(std::numeric_limits<double>::min()); cur->Set_h(1e-4); } break;
      case HMAX_TOGGLE: m.hmax_lowered = !m.hmax_lowered; cur->Set_h_max(m.hmax_lowered ? 0.05 : std::numeric_limits<double>::max()); break;   // an upper bound on the step: the same solution in more steps
      case TOL_TOGGLE: m.tight = !m.tight; cur->Set_rel_error(m.tight ? 1e-10 : 1e-8); cur->Set_abs_error(m.tight ? 1e-10 : 1e-8); break;
      case MOVE_CTOR: {
        std::unique_ptr<Probe> n(new Probe(std::move(*cur)));
        cur->P.kappa = 77; cur->P.d = 2; for (int b = 0; b < 5; b++) cur->P.sw[b] = true;   // poison the moved-from object's problem, then destroy it
        cur.reset(); cur = std::move(n); cur->log = CallLog();
      } break;
      case MOVE_ASSIGN_FRESH: {
        std::unique_ptr<Probe> n(new Probe());
        *n = std::move(*cur); cur->P.kappa = 77; cur.reset(); cur = std::move(n); cur->log = CallLog();
      } break;
      case MOVE_ASSIGN_USED: {
        Problem q = m.P; q.d = (nsun == 2 ? 3 : 2); q.nx = 3; q.nsc = 2; for (int b = 0; b < 5; b++) q.sw[b] = true;
        std::unique_ptr<Probe> n(new Probe(q, 5.0));
        // every integrator setting of the assignee differs from the moved solver's and is loose: a setting that is not carried over by the move shows in the next segment
        n->Set_rel_error(1e-1); n->Set_abs_error(1e-1); n->Set_h(0.5); n->Set_NumSteps(3); n->Set_GSL_step(gsl_odeiv2_step_rk2); n->Set_h_max(0.9); n->set_flat(probe_state(q, 1)); n->Evolve(0.2);
        n->Set_AdaptiveStep(!m.adaptive);
        *n = std::move(*cur); cur->P.kappa = 77; cur.reset(); cur = std::move(n); cur->log = CallLog();
      } break;
      case MOVE_ASSIGN_REUSE_SOURCE: {
        // the moved-from object stays alive, is re-initialised with a problem of its own and evolved while the new owner exists:
        // it gets ITS solution through ITS callbacks, and the new owner's clock, state and views do not move
        std::unique_ptr<Probe> n(new Probe()); *n = std::move(*cur);
        std::unique_ptr<Probe> old = std::move(cur); cur = std::move(n); cur->log = CallLog();
        std::vector<double> keep = cur->get_flat(); double keep_t = cur->Get_t();
        Problem q = m.P; q.kappa = 0.1; q.kappa2 = 0.0; bool qs[5] = {true, true, false, true, false}; for (int b = 0; b < 5; b++) q.sw[b] = qs[b];
        try {
          old->P = q; old->ini(q.nx, q.d, q.nrho, q.nsc, 7.0); old->apply_switches(); old->Set_GSL_step(gsl_odeiv2_step_rkf45); old->Set_AdaptiveStep(true); old->Set_rel_error(1e-10); old->Set_abs_error(1e-10); old->Set_h(1e-4);
          old->Set_h_min(std::numeric_limits<double>::min()); old->Set_h_max(std::numeric_limits<double>::max());
          std::vector<double> z0 = probe_state(q, 2); old->set_flat(z0); old->log = CallLog();
          old->Evolve(0.3);
          std::vector<double> zw = q.exact(z0, 7.0, 7.3), zg = old->get_flat();
          if (!(maxdiff(zg, zw) <= 1e-6 * std::max(1.0, maxabs(zw))) || !(std::fabs(old->Get_t() - 7.3) <= 1e-12) || (old->log.last_this && old->log.last_this != old.get()) || old->log.pre == 0)
            viol("moved-from-solver:re-initialised-and-evolved:wrong-result-or-callbacks-on-another-object", i, ",\"err\":" + jnum(maxdiff(zg, zw)) + ",\"t\":" + jnum(old->Get_t()));
        } catch (const std::exception& ex) { viol("moved-from-solver:re-initialise-and-evolve-throws", i, ",\"what\":" + jstr(ex.what())); }
        std::vector<double> now = cur->get_flat(); bool same = now.size() == keep.size(); for (size_t k = 0; same && k < now.size(); k++) if (!ref::biteq(now[k], keep[k])) same = false;
        if (!same || cur->Get_t() != keep_t || !cur->views_coincide() || cur->log.pre != 0 || cur->log.hi != 0 || cur->log.gsc != 0) viol("moved-from-solver:its-evolution-disturbed-the-new-owner", i, ",\"t\":" + jnum(cur->Get_t()));
        old.reset(); cur->log = CallLog();
      } break;
      case REINIT: {
        m.tini = 2.25; m.t = 2.25; m.y = probe_state(m.P, 1); m.segments = 0; m.clock_slack = 0;
        cur->ini(m.P.nx, m.P.d, m.P.nrho, m.P.nsc, m.tini); cur->set_flat(m.y);
        if (!(cur->Get_t() == m.tini && cur->Get_t_initial() == m.tini)) viol("ini:clock-not-fresh", i, "");
        if (!cur->views_coincide()) viol("ini:views-not-on-stored-state", i, "");
      } break;
    }
    // frame: operations other than Evolve / ini leave clock and stored state alone (moves carry them over)
    if (op >= TG0 && op != REINIT) {
      std::vector<double> got = cur->get_flat();
      double tol = 1e-6 * std::max(1.0, maxabs(m.y)) * std::max(1, m.segments);
      if (!(maxdiff(got, m.y) <= tol)) viol(std::string("state-changed-by:") + OPNAME[op], i, "");
      if (!(std::fabs(cur->Get_t() - m.t) <= m.clock_slack)) viol(std::string("clock-changed-by:") + OPNAME[op], i, "");
    }
  }
  set_case("");
  return true;
}

int main(int argc, char** argv) {
  Args ar = parse(argc, argv); quiet_gsl(); install_crash_reporter();
  if (!ar.replay.empty()) {
    int nsun = 2; std::vector<int> h; const char* p = ar.replay.c_str();
    if (sscanf(p, "nsun=%d:", &nsun) == 1) p = strchr(p, ':') + 1;
    while (*p) { h.push_back(atoi(p)); const char* c = strchr(p, ','); if (!c) break; p = c + 1; }
    count("evaluations"); bool ok = run_history(h, nsun, true); printf("replayed %s member=%d\n", hist_names(h).c_str(), ok); count("states"); finish(); return 0;
  }
  int depth = (int)ar.geti("depth", 3);
  long long need_evolves = ar.geti("min-evolves", 0);
  double deadline = (double)ar.geti("deadline", 100000);
  auto t0 = std::chrono::steady_clock::now();
  long long caseno = 0;
  std::vector<int> nsuns = {2, 3};
  for (int nsun : nsuns) {
    for (int L = 1; L <= depth; L++) {
      if (need_evolves && L < depth) continue;
      std::vector<int> h(L, 0);
      while (true) {
        int nev = 0; for (int o : h) if (o <= EVS) nev++;
        bool take = nev >= need_evolves;
        if (take && (caseno++ % ar.nshards) == ar.shard) {
          if (std::chrono::duration<double>(std::chrono::steady_clock::now() - t0).count() > deadline) { not_exhaustive(); info("deadline", "hit at depth " + std::to_string(L)); goto done; }
          if (run_history(h, nsun, true)) {
            count("states"); count("executions"); count("evaluations"); distinct(ref::fnv(h.data(), h.size() * sizeof(int), nsun));
            sample_every(caseno, 50021, "{\"nsun\":" + std::to_string(nsun) + ",\"history\":" + hist_names(h) + "}");
            maxstat("max_depth", L);
          } else count("histories_outside_space");
        }
        int k = L - 1; while (k >= 0 && ++h[k] == NOPS) { h[k] = 0; k--; }
        if (k < 0) break;
      }
    }
  }
done:
  finish();
  return 0;
}
