// Common plumbing for all harness programs: argument parsing, the line protocol
// understood by check.py, counters, distinct-case hashing, JSON formatting.
//
// Protocol (stdout, one record per line):
//   #C name int        counter, summed over shards
//   #M name float      statistic, maximum over shards
//   #S json            sample case (the driver keeps the first few)
//   #V signature \t json     a violation; signature identifies entry point + failure + input class
//   #X 0|1             exhaustive flag (and-ed over shards)
//   #I key \t text     free information
#pragma once
#include <cfenv>
#if defined(__x86_64__) || defined(__i386__)
#include <xmmintrin.h>
#endif
#include <cstdio>
#include <cstdlib>
#include <cstring>
#include <cstdarg>
#include <cstdint>
#include <cmath>
#include <string>
#include <vector>
#include <map>
#include <unordered_set>
#include <sstream>
#include <unistd.h>

namespace vf {

struct Args {
  std::string tier = "quick";
  int shard = 0, nshards = 1;
  long long seed = 0;
  std::string mode;      // harness-specific sub-mode
  std::string replay;    // harness-specific replay string
  bool reduced = false;  // reduced alphabet (sanitizer second pass)
  std::map<std::string, std::string> kv;
  bool thorough() const { return tier == "thorough"; }
  std::string get(const std::string& k, const std::string& dflt = "") const { auto it = kv.find(k); return it == kv.end() ? dflt : it->second; }
  long long geti(const std::string& k, long long dflt) const { auto it = kv.find(k); return it == kv.end() ? dflt : atoll(it->second.c_str()); }
};

inline Args parse(int argc, char** argv) {
  Args a;
  for (int i = 1; i < argc; i++) {
    std::string s = argv[i];
    auto next = [&]() -> std::string { if (i + 1 >= argc) { fprintf(stderr, "missing value for %s\n", s.c_str()); exit(2); } return argv[++i]; };
    if (s == "--tier") a.tier = next();
    else if (s == "--shard") { std::string v = next(); sscanf(v.c_str(), "%d/%d", &a.shard, &a.nshards); }
    else if (s == "--seed") a.seed = atoll(next().c_str());
    else if (s == "--mode") a.mode = next();
    else if (s == "--replay") a.replay = next();
    else if (s == "--reduced") a.reduced = true;
    else if (s.rfind("--", 0) == 0) { std::string k = s.substr(2); a.kv[k] = next(); }
    else { fprintf(stderr, "unknown argument %s\n", s.c_str()); exit(2); }
  }
  return a;
}

// ---------- JSON helpers ----------
inline std::string jnum(double x) {
  if (std::isnan(x)) return "\"nan\"";
  if (std::isinf(x)) return x > 0 ? "\"inf\"" : "\"-inf\"";
  char b[40]; snprintf(b, sizeof b, "%.17g", x); return b;
}
inline std::string jstr(const std::string& s) {
  std::string r = "\"";
  for (char c : s) { if (c == '"' || c == '\\') { r += '\\'; r += c; } else if (c == '\n') r += "\\n"; else if (c == '\t') r += "\\t"; else if ((unsigned char)c < 32) r += ' '; else r += c; }
  return r + "\"";
}
inline std::string jarr(const double* p, size_t n) { std::string r = "["; for (size_t i = 0; i < n; i++) { if (i) r += ","; r += jnum(p[i]); } return r + "]"; }
inline std::string jarr(const std::vector<double>& v) { return jarr(v.data(), v.size()); }
inline std::string jarr(const std::vector<int>& v) { std::string r = "["; for (size_t i = 0; i < v.size(); i++) { if (i) r += ","; r += std::to_string(v[i]); } return r + "]"; }
struct J {  // tiny object builder
  std::string s = "{"; bool first = true;
  J& raw(const std::string& k, const std::string& v) { if (!first) s += ","; first = false; s += jstr(k) + ":" + v; return *this; }
  J& num(const std::string& k, double v) { return raw(k, jnum(v)); }
  J& i(const std::string& k, long long v) { return raw(k, std::to_string(v)); }
  J& str(const std::string& k, const std::string& v) { return raw(k, jstr(v)); }
  J& arr(const std::string& k, const std::vector<double>& v) { return raw(k, jarr(v)); }
  J& arr(const std::string& k, const double* p, size_t n) { return raw(k, jarr(p, n)); }
  std::string done() const { return s + "}"; }
};

// ---------- counters ----------
struct State {
  std::map<std::string, long long> cnt;
  std::map<std::string, double> mx;
  std::map<std::string, int> vio_per_sig;
  std::unordered_set<uint64_t> distinct;
  int samples = 0, max_samples = 6;
  long long violations = 0;
  bool exhaustive = true;
};
inline State& st() { static State s; return s; }

inline void count(const std::string& k, long long n = 1) { st().cnt[k] += n; }
inline void maxstat(const std::string& k, double v) { auto& m = st().mx; auto it = m.find(k); if (it == m.end()) m[k] = v; else if (v > it->second || std::isnan(v)) it->second = v; }
inline void sample(const std::string& json) { if (st().samples < st().max_samples) { st().samples++; printf("#S %s\n", json.c_str()); } }
// sample at a stride so that samples are spread over the enumeration
inline void sample_every(long long idx, long long stride, const std::string& json) { if (st().samples < 2 || idx % stride == 0) sample(json); }
inline bool distinct(uint64_t h) { return st().distinct.insert(h).second; }
inline void violation(const std::string& sig, const std::string& json) {
  st().violations++;
  int& n = st().vio_per_sig[sig];
  n++;
  if (n <= 3) { printf("#V %s\t%s\n", sig.c_str(), json.c_str()); fflush(stdout); }
}
inline void info(const std::string& k, const std::string& v) { printf("#I %s\t%s\n", k.c_str(), v.c_str()); }
inline void not_exhaustive() { st().exhaustive = false; }
// The library must leave the thread's floating-point environment (rounding mode, flush-to-zero / denormals-are-zero, exception
// masks) as it found it: every later result of the caller depends on it.
#if defined(__x86_64__) || defined(__i386__)
inline unsigned fp_env_word() { return (_mm_getcsr() & ~0x3fu) ^ ((unsigned)std::fegetround() << 16); }   // sticky exception flags (low 6 bits) are not part of the mode
#else
inline unsigned fp_env_word() { return (unsigned)std::fegetround(); }
#endif
inline unsigned& fp_env_at_start() { static unsigned w = fp_env_word(); return w; }
static const unsigned vf_fp_env_captured_at_static_init = fp_env_at_start();
inline void violation(const std::string& sig, const std::string& json);
inline void check_fp_env(const char* where) {
  unsigned now = fp_env_word();
  if (now != fp_env_at_start()) { char b[160]; snprintf(b, sizeof b, "{\"where\":\"%s\",\"mode_word_at_start\":%u,\"mode_word_now\":%u}", where, fp_env_at_start(), now); violation("floating-point-environment:changed-by-the-library", b); fp_env_at_start() = now; }
}
inline void finish() {
  check_fp_env("end of run");
  for (auto& kv : st().cnt) printf("#C %s %lld\n", kv.first.c_str(), kv.second);
  for (auto& kv : st().mx) printf("#M %s %s\n", kv.first.c_str(), jnum(kv.second).c_str());
  for (auto& kv : st().vio_per_sig) printf("#C violations:%s %d\n", kv.first.c_str(), kv.second);
  printf("#C distinct %lld\n", (long long)st().distinct.size());
  printf("#X %d\n", st().exhaustive ? 1 : 0);
  fflush(stdout);
}

// ---------- crash context: which case was running when a sanitizer report / signal ended the process ----------
inline char* case_buf() { static char b[4096]; return b; }
inline void set_case(const std::string& s) { strncpy(case_buf(), s.c_str(), 4095); case_buf()[4095] = 0; }
inline void dump_case() { if (case_buf()[0]) { const char* p = "CURRENT-CASE: "; ssize_t r = write(2, p, strlen(p)); r = write(2, case_buf(), strlen(case_buf())); r = write(2, "\n", 1); (void)r; } }

inline std::string fmt(const char* f, ...) { char b[512]; va_list ap; va_start(ap, f); vsnprintf(b, sizeof b, f, ap); va_end(ap); return b; }

}  // namespace vf

extern "C" __attribute__((weak, used)) void __asan_on_error() { vf::dump_case(); }
#include <signal.h>
namespace vf {
inline void crash_sig_handler(int sig) { dump_case(); signal(sig, SIG_DFL); raise(sig); }
inline void install_crash_reporter() { signal(SIGSEGV, crash_sig_handler); signal(SIGABRT, crash_sig_handler); signal(SIGBUS, crash_sig_handler); signal(SIGFPE, crash_sig_handler); signal(SIGILL, crash_sig_handler); }
}
