// C04: SQuIDS::Evolve integrates exactly the documented kinetic equation.
// Layer 1: per-call exactness of the assembled right-hand side under a scripted, RK-shaped stepper.
// Layer 2: end-to-end agreement with closed-form / independent solutions for every real GSL stepper mode.
#include "solver.hpp"
#include <memory>
#include <functional>
using namespace vf;

static long long g_idx = 0;

// ---------------- scripted stepper ----------------
// The work arrays a stepper hands to the right-hand side are an answer of the environment: a new driver may get fresh addresses or
// exactly the addresses an earlier driver had (an allocator is free to do either). g_script_reuse selects the second answer.
struct Script { size_t dim; std::vector<double> k1, k2, ytmp; };
static bool g_script_reuse = false; static Script* g_script_pool = nullptr;
static std::function<void(double, const double*, const double*, int)> g_on_eval;
static void* s_alloc(size_t dim) {
  if (g_script_reuse) { if (!g_script_pool) { g_script_pool = new Script; g_script_pool->k1.resize(8192); g_script_pool->k2.resize(8192); g_script_pool->ytmp.resize(8192); } g_script_pool->dim = dim; return g_script_pool; }
  Script* s = new Script; s->dim = dim; s->k1.resize(dim); s->k2.resize(dim); s->ytmp.resize(dim); return s; }
static int s_apply(void* st, size_t dim, double t, double h, double y[], double yerr[], const double[], double[], const gsl_odeiv2_system* sys) {
  Script* s = (Script*)st;
  if (GSL_ODEIV_FN_EVAL(sys, t, y, s->k1.data()) != GSL_SUCCESS) return GSL_EBADFUNC;
  g_on_eval(t, y, s->k1.data(), 0);
  for (size_t i = 0; i < dim; i++) s->ytmp[i] = y[i] + 0.5 * h * s->k1[i];
  if (GSL_ODEIV_FN_EVAL(sys, t + 0.5 * h, s->ytmp.data(), s->k2.data()) != GSL_SUCCESS) return GSL_EBADFUNC;
  g_on_eval(t + 0.5 * h, s->ytmp.data(), s->k2.data(), 1);
  for (size_t i = 0; i < dim; i++) s->ytmp[i] = y[i] + h * s->k2[i];
  if (GSL_ODEIV_FN_EVAL(sys, t + h, s->ytmp.data(), s->k1.data()) != GSL_SUCCESS) return GSL_EBADFUNC;
  g_on_eval(t + h, s->ytmp.data(), s->k1.data(), 2);
  // rk4's step-doubling shape: a new input buffer (the caller's array again) with the SAME output buffer as the previous call
  if (GSL_ODEIV_FN_EVAL(sys, t + h, y, s->k1.data()) != GSL_SUCCESS) return GSL_EBADFUNC;
  g_on_eval(t + h, y, s->k1.data(), 3);
  for (size_t i = 0; i < dim; i++) { y[i] += h * s->k2[i]; yerr[i] = 0; }
  return GSL_SUCCESS;
}
static int s_set_driver(void*, const gsl_odeiv2_driver*) { return GSL_SUCCESS; }
static int s_reset(void*, size_t) { return GSL_SUCCESS; }
static unsigned int s_order(void*) { return 2; }
static void s_free(void* st) { if (st != g_script_pool) delete (Script*)st; }
static const gsl_odeiv2_step_type scripted_type = {"scripted-rk-shaped", 0, 0, &s_alloc, &s_apply, &s_set_driver, &s_reset, &s_order, &s_free};

static std::string pjson(const Problem& p) { return J().i("nx", p.nx).i("nsun", p.d).i("nrhos", p.nrho).i("nscalars", p.nsc).i("family", p.family).raw("switches", fmt("[%d,%d,%d,%d,%d]", p.sw[0], p.sw[1], p.sw[2], p.sw[3], p.sw[4])).i("setter_order", p.sw_order).done(); }
static std::string swsig(const Problem& p) { return fmt("sw=%d%d%d%d%d", p.sw[0], p.sw[1], p.sw[2], p.sw[3], p.sw[4]); }

static void layer1_config(Problem p, bool reduced) {
  std::vector<std::vector<double>> states;
  int neq = p.neq();
  int stride = reduced ? 7 : 1;
  for (int k = 0; k < neq; k += stride) { std::vector<double> y(neq, 0.0); y[k] = 1.0; states.push_back(y); }
  for (int w = 0; w < 3; w++) states.push_back(probe_state(p, w));
  for (size_t si = 0; si < states.size(); si++) {
    bool impulse = si + 3 < states.size();
    p.family = impulse ? 1 : 0;
    Probe s(p, 0.25);
    s.Set_GSL_step(&scripted_type); s.Set_AdaptiveStep(false); s.Set_NumSteps(1); s.Set_abs_error(1e-3); s.Set_rel_error(1e-3);
    s.set_flat(states[si]);
    count("evaluations"); { uint64_t h = hashvec(states[si], p.d * 1000 + p.nx * 100 + p.nrho * 10 + p.nsc); h = ref::fnv(p.sw, sizeof p.sw, h); distinct(h); }
    sample_every(g_idx++, 20011, "{\"layer\":1,\"problem\":" + pjson(p) + ",\"state\":" + (impulse ? "\"unit impulse at flat index " + std::to_string(si * stride) + "\"" : "\"probe\"") + "}");
    int nevals = 0; bool bad = false;
    g_on_eval = [&](double t, const double* y, const double* dy, int stage) {
      nevals++; count("rhs_calls_checked");
      std::vector<double> want(neq); p.rhs(t, y, want.data());
      double scale = 0; for (int i = 0; i < neq; i++) scale = std::max(scale, std::fabs(y[i]));
      double tol = 256 * p.d * ref::EPS * (scale + 1), e = 0; int worst = -1;
      for (int i = 0; i < neq; i++) { double di = std::fabs(dy[i] - want[i]); if (!(di <= e)) { e = di; worst = i; } }
      maxstat("rhs_err/tol", e / tol);
      if (!(e <= tol) && !bad) { bad = true; violation("Derive:rhs-mismatch:" + swsig(p), "{\"problem\":" + pjson(p) + ",\"t\":" + jnum(t) + ",\"stage\":" + std::to_string(stage) + ",\"flat_index\":" + std::to_string(worst) + ",\"got\":" + jnum(dy[worst]) + ",\"want\":" + jnum(want[worst]) + ",\"state\":" + jarr(y, neq) + "}"); }
      for (double tt : s.log.times) if (!(tt == t) && !bad) { bad = true; violation("Derive:term-called-with-wrong-time", "{\"problem\":" + pjson(p) + ",\"stepper_time\":" + jnum(t) + ",\"term_time\":" + jnum(tt) + "}"); }
      if (!(s.log.last_pre_t == t) && s.log.pre > 0 && !bad) { bad = true; violation("Derive:PreDerive-wrong-time", "{\"problem\":" + pjson(p) + "}"); }
      s.log.times.clear();
    };
    bool any = p.sw[0] || p.sw[1] || p.sw[2] || p.sw[3] || p.sw[4];
    try { s.Evolve(0.2); s.Evolve(0.1); }
    catch (const std::exception& ex) { violation("Evolve:throws-with-scripted-stepper", "{\"problem\":" + pjson(p) + ",\"what\":" + jstr(ex.what()) + "}"); continue; }
    if (any && nevals != 8) violation("Evolve:unexpected-rhs-call-count", "{\"problem\":" + pjson(p) + ",\"calls\":" + std::to_string(nevals) + "}");
    if (!s.views_coincide()) violation("Evolve:views-not-realiased", "{\"problem\":" + pjson(p) + "}");
  }
}

// Evolve, re-initialise with the same shape, Evolve again -- with the stepper's work arrays at the same addresses both times
static void layer1_reini(Problem p) {
  g_script_reuse = true;
  p.family = 0;
  Probe s(p, 0.25);
  auto conf = [&]() { s.Set_GSL_step(&scripted_type); s.Set_AdaptiveStep(false); s.Set_NumSteps(1); s.Set_abs_error(1e-3); s.Set_rel_error(1e-3); };
  int neq = p.neq(); bool bad = false; int nevals = 0;
  g_on_eval = [&](double t, const double* y, const double* dy, int stage) {
    nevals++; count("rhs_calls_checked");
    std::vector<double> want(neq); p.rhs(t, y, want.data());
    double scale = 0; for (int i = 0; i < neq; i++) scale = std::max(scale, std::fabs(y[i]));
    double tol = 256 * p.d * ref::EPS * (scale + 1), e = 0; for (int i = 0; i < neq; i++) { double di = std::fabs(dy[i] - want[i]); if (!(di <= e)) e = di; }
    if (!(e <= tol) && !bad) { bad = true; violation("Derive:rhs-mismatch:after-re-initialisation:" + swsig(p), "{\"problem\":" + pjson(p) + ",\"t\":" + jnum(t) + ",\"stage\":" + std::to_string(stage) + "}"); }
    s.log.times.clear();
  };
  count("evaluations"); count("reinitialised_solver_runs"); set_case("re-ini with reused stepper buffers " + pjson(p));
  try { conf(); s.set_flat(probe_state(p, 0)); s.Evolve(0.2);
    s.ini(p.nx, p.d, p.nrho, p.nsc, 0.25); s.apply_switches(); conf(); s.set_flat(probe_state(p, 1)); s.Evolve(0.2); s.Evolve(0.1);
    if (!s.views_coincide()) violation("Evolve:views-not-realiased:after-re-initialisation", "{\"problem\":" + pjson(p) + "}"); }
  catch (const std::exception& ex) { violation("Evolve:throws-with-scripted-stepper:after-re-initialisation", "{\"problem\":" + pjson(p) + ",\"what\":" + jstr(ex.what()) + "}"); }
  set_case(""); g_script_reuse = false;
}

// ---------------- layer 2 ----------------
struct Mode { const char* name; const gsl_odeiv2_step_type* type; bool adaptive; double tol; };

// via: how the solver object that is evolved came to be: 0 constructed directly, 1 move-constructed, 2 move-assigned into a default-constructed
// object, 3 move-assigned over a used object of another shape
static void layer2_run(const Problem& p, const Mode& m, double tini, const char* oracle, int ncalls = 1, int via = 0) {
  Probe s0(p, tini);
  std::unique_ptr<Probe> moved;
  if (via >= 4) {} else
  if (via == 1) moved.reset(new Probe(std::move(s0)));
  else if (via == 2) { moved.reset(new Probe()); *moved = std::move(s0); }
  else if (via == 3) { Problem q = p; q.nx = p.nx + 1; q.d = (p.d == 2 ? 3 : 2); q.nrho = 3 - p.nrho + 1; q.nsc = 2 - p.nsc; for (int b = 0; b < 5; b++) q.sw[b] = true; moved.reset(new Probe(q, 3.0)); moved->Set_rel_error(1e-3); moved->Set_abs_error(1e-3); moved->set_flat(probe_state(q, 1)); moved->Evolve(0.1); *moved = std::move(s0); }
  Probe& s = (via >= 1 && via <= 3) ? *moved : s0;
  if (via >= 1 && via <= 3) { s0.P.kappa = 55; s0.P.d = 2; count("moved_solver_runs"); }   // the moved-from object's problem is poisoned: callbacks must reach the new object
  s.Set_GSL_step(m.type); s.Set_AdaptiveStep(m.adaptive);
  if (m.adaptive) { s.Set_rel_error(1e-10); s.Set_abs_error(1e-10); s.Set_h(1e-4); }
  else { s.Set_NumSteps(2000); s.Set_rel_error(1e-2); s.Set_abs_error(1e-2); }
  std::vector<double> y0 = probe_state(p, 0);
  s.set_flat(y0);
  double tau = 1.0;
  count("evaluations"); { uint64_t h = ref::fnv(m.name, strlen(m.name), p.d * 1000 + p.nx * 100 + p.nrho * 10 + p.nsc); h = ref::fnv(p.sw, sizeof p.sw, h); h = ref::fnv(&tini, 8, h); h = ref::fnv(&p.family, 4, h); h = ref::fnv(&ncalls, 4, h); if (p.sw[0] || p.sw[1] || p.sw[2] || p.sw[3] || p.sw[4]) distinct(h); }
  std::string ctx = "{\"layer\":2,\"evolve_calls\":" + std::to_string(ncalls) + ",\"problem\":" + pjson(p) + ",\"stepper\":" + jstr(m.name) + ",\"adaptive\":" + (m.adaptive ? "true" : "false") + ",\"t_ini\":" + jnum(tini) + ",\"oracle\":" + jstr(oracle) + "}";
  sample_every(g_idx++, 9001, ctx);
  // ncalls > 1: the same interval covered by several consecutive Evolve calls (a later call starts at t != t_ini)
  if (via >= 4) {   // the move happens between two segments: clock, state and settings travel with the object
    Probe& src = s; src.Evolve(0.4 * tau);
    std::unique_ptr<Probe> mv2;
    if (via == 4) mv2.reset(new Probe(std::move(src)));
    else if (via == 5) { mv2.reset(new Probe()); *mv2 = std::move(src); }
    else { Problem q = p; q.nx = p.nx + 1; q.nrho = 3 - p.nrho + 1; for (int b = 0; b < 5; b++) q.sw[b] = true; mv2.reset(new Probe(q, 3.0)); mv2->Set_rel_error(1e-2); mv2->Set_abs_error(1e-2); mv2->set_flat(probe_state(q, 1)); mv2->Evolve(0.1); *mv2 = std::move(src); }
    src.P.kappa = 55; count("moved_solver_runs");
    try { mv2->Evolve(tau - 0.4 * tau); } catch (const std::exception& ex) { violation(std::string("Evolve:throws:") + m.name + ":after-move", "{\"case\":" + ctx + ",\"what\":" + jstr(ex.what()) + "}"); return; }
    std::vector<double> got = mv2->get_flat(), want = p.exact(y0, tini, tini + tau);
    double scale = std::max(maxabs(y0), maxabs(want)), e = maxdiff(got, want), tol = m.tol * scale * 2;
    if (!(e <= tol) || !(std::fabs(mv2->Get_t() - (tini + tau)) <= 2 * (8 + (m.adaptive ? 0 : 2000)) * ref::EPS * (std::fabs(tini) + tau)) || !(mv2->Get_t_initial() == tini))
      violation(std::string("Evolve:solution-mismatch:moved-between-segments:via") + std::to_string(via), "{\"case\":" + ctx + ",\"err\":" + jnum(e) + ",\"t\":" + jnum(mv2->Get_t()) + ",\"t_initial\":" + jnum(mv2->Get_t_initial()) + "}");
    if (!mv2->views_coincide()) violation("Evolve:views-not-realiased", ctx);
    return;
  }
  try { if (ncalls == 1) s.Evolve(tau); else { s.Evolve(0.4 * tau); if (ncalls == 3) { s.Evolve(0.25 * tau); s.Evolve(tau - 0.4 * tau - 0.25 * tau); } else s.Evolve(tau - 0.4 * tau); } }
  catch (const std::exception& ex) { violation(std::string("Evolve:throws:") + m.name + (m.adaptive ? ":adaptive" : ":fixed"), "{\"case\":" + ctx + ",\"what\":" + jstr(ex.what()) + "}"); return; }
  std::vector<double> got = s.get_flat(), want;
  if (!strcmp(oracle, "rk4-reference")) want = p.rk4(y0, tini, tini + tau, 4000); else want = p.exact(y0, tini, tini + tau);
  double scale = std::max(maxabs(y0), maxabs(want)), e = maxdiff(got, want), tol = m.tol * scale * ncalls;
  maxstat(std::string("end_to_end_err/tol:") + m.name + (m.adaptive ? ":adaptive" : ":fixed"), e / tol);
  if (!(e <= tol)) violation(std::string("Evolve:solution-mismatch:") + swsig(p) + ":family" + std::to_string(p.family), "{\"case\":" + ctx + ",\"err\":" + jnum(e) + ",\"tol\":" + jnum(tol) + ",\"got\":" + jarr(got) + ",\"want\":" + jarr(want) + "}");
  // fixed stepping adds h to the clock nsteps times: allow one rounding per step
  if (!(std::fabs(s.Get_t() - (tini + tau)) <= ncalls * (8 + (m.adaptive ? 0 : 2000)) * ref::EPS * (std::fabs(tini) + tau))) violation("Evolve:clock", "{\"case\":" + ctx + ",\"t\":" + jnum(s.Get_t()) + "}");
  if (!s.views_coincide()) violation("Evolve:views-not-realiased", ctx);
}

// "to the requested tolerance": relative-only control on a tiny state and absolute-only control on a huge state. The
// problem is homogeneous (no source terms), so scaling the initial state scales the exact solution.
static void tolerance_run(const Problem& p, const Mode& m, double scale, double rel, double abs_, double accept_rel_to_scale) {
  Probe s(p, 0.5);
  s.Set_GSL_step(m.type); s.Set_AdaptiveStep(true); s.Set_rel_error(rel); s.Set_abs_error(abs_); s.Set_h(1e-4);
  std::vector<double> y0 = scaled(probe_state(p, 1), scale);
  s.set_flat(y0);
  count("evaluations"); { uint64_t h = ref::fnv(m.name, strlen(m.name), p.d); h = ref::fnv(&scale, 8, h); h = ref::fnv(&rel, 8, h); distinct(h); }
  std::string ctx = "{\"layer\":\"tolerance\",\"problem\":" + pjson(p) + ",\"stepper\":" + jstr(m.name) + ",\"state_scale\":" + jnum(scale) + ",\"rel_error\":" + jnum(rel) + ",\"abs_error\":" + jnum(abs_) + "}";
  try { s.Evolve(0.6); s.Evolve(0.4); }
  catch (const std::exception& ex) { violation(std::string("Evolve:throws:") + m.name + ":tolerance-run", "{\"case\":" + ctx + ",\"what\":" + jstr(ex.what()) + "}"); return; }
  std::vector<double> got = s.get_flat(), want = p.exact(y0, 0.5, 1.5);
  double e = maxdiff(got, want), tol = accept_rel_to_scale * scale;
  maxstat(std::string("tolerance_run_err/tol:") + m.name, e / tol);
  if (!(e <= tol)) violation("Evolve:requested-tolerance-not-honoured", "{\"case\":" + ctx + ",\"err\":" + jnum(e) + ",\"accepted\":" + jnum(tol) + "}");
}

// Fixed stepping keeps GSL's error control: a step whose error estimate exceeds the requested tolerance is rejected and the
// failure must surface. Either Evolve reports it (exception) or, if it returns normally, the clock is at t+dt and the state is
// the solution -- a normal return with a partially evolved state is the violation.
static void coarse_fixed_run(const Problem& p, const Mode& m, int nsteps, double tolreq) {
  Probe s(p, 0.0);
  s.Set_GSL_step(m.type); s.Set_AdaptiveStep(false); s.Set_NumSteps(nsteps); s.Set_rel_error(tolreq); s.Set_abs_error(tolreq);
  std::vector<double> y0 = probe_state(p, 2);
  s.set_flat(y0);
  count("evaluations"); { uint64_t h = ref::fnv(m.name, strlen(m.name), p.d * 100 + nsteps); h = ref::fnv(p.sw, sizeof p.sw, h); h = ref::fnv(&tolreq, 8, h); distinct(h); }
  std::string ctx = "{\"layer\":\"coarse-fixed\",\"problem\":" + pjson(p) + ",\"stepper\":" + jstr(m.name) + ",\"steps\":" + std::to_string(nsteps) + ",\"tolerance\":" + jnum(tolreq) + "}";
  double tau = 2.0;
  try { s.Evolve(tau); } catch (const std::exception&) { count("coarse_fixed_step_runs_refused"); return; }
  count("coarse_fixed_step_runs_completed");
  std::vector<double> got = s.get_flat(), want = p.exact(y0, 0.0, tau);
  double scale = std::max(maxabs(y0), maxabs(want)), e = maxdiff(got, want), tol = std::max(1e-3, 2.0 * nsteps * tolreq) * (1 + scale);   // a completed run passed the error control at every step: local errors of at most tolreq*(1+|y|) each
  if (!(std::fabs(s.Get_t() - tau) <= 64 * nsteps * ref::EPS * tau) || !(e <= tol)) violation(std::string("Evolve:fixed-step-failure-not-reported:") + m.name, "{\"case\":" + ctx + ",\"t\":" + jnum(s.Get_t()) + ",\"err\":" + jnum(e) + "}");
}

int main(int argc, char** argv) {
  Args ar = parse(argc, argv); quiet_gsl();
  bool th = ar.thorough();
  long long caseno = 0;
  // ----- layer 1 -----
  std::vector<int> dims1 = th ? std::vector<int>{2, 3, 4, 5, 6} : std::vector<int>{2, 3, 6};
  if (ar.reduced) dims1 = {2, 3};
  for (int nx = 1; nx <= 3; nx++) for (int d : dims1) for (int nrho = 1; nrho <= 3; nrho++) for (int nsc = 0; nsc <= 2; nsc++) for (int sw = 0; sw < 32; sw++) {
    if (ar.reduced && (nx == 3 || nrho == 3 || (sw % 5 != 1 && sw != 31))) continue;
    if ((caseno++ % ar.nshards) != ar.shard) continue;
    Problem p; p.nx = nx; p.d = d; p.nrho = nrho; p.nsc = nsc; for (int b = 0; b < 5; b++) p.sw[b] = (sw >> b) & 1; p.family = 0; p.kappa = 0.3; p.kappa2 = 0.2;
    layer1_config(p, ar.reduced || (!th && d == 6 && nrho == 3));
  }
  for (int nx = 1; nx <= 2; nx++) for (int d : {2, 3}) for (int nrho = 1; nrho <= 2; nrho++) for (int nsc = 0; nsc <= 1; nsc++) for (int sw : {31, 1, 10, 21}) {
    if ((caseno++ % ar.nshards) != ar.shard) continue;
    Problem p; p.nx = nx; p.d = d; p.nrho = nrho; p.nsc = nsc; for (int b = 0; b < 5; b++) p.sw[b] = (sw >> b) & 1; p.family = 0; p.kappa = 0.3; p.kappa2 = 0.2;
    layer1_reini(p);
  }
  // the five switches set in every order class (each one last, forwards and backwards, after all-on, after the complement)
  for (int d : {2, 3}) for (int nsc = 0; nsc <= 1; nsc++) for (int sw = 0; sw < 32; sw++) for (int ord = 1; ord < Probe::N_SW_ORDERS; ord++) {
    if (ar.reduced && (d == 3 || sw % 3)) continue;
    if ((caseno++ % ar.nshards) != ar.shard) continue;
    Problem p; p.nx = 1; p.d = d; p.nrho = 1; p.nsc = nsc; for (int b = 0; b < 5; b++) p.sw[b] = (sw >> b) & 1; p.family = 0; p.kappa = 0.3; p.kappa2 = 0.2; p.sw_order = ord;
    count("switch_order_cases"); layer1_config(p, true);
  }
  // ----- layer 2 -----
  std::vector<Mode> modes = {
    // accepted deviation per mode: >= 30x the largest error observed on the repaired tree (truncation error of the stepper dominates)
    {"rk2", gsl_odeiv2_step_rk2, true, 1e-7}, {"rk4", gsl_odeiv2_step_rk4, true, 1e-7}, {"rkf45", gsl_odeiv2_step_rkf45, true, 1e-7}, {"rkck", gsl_odeiv2_step_rkck, true, 1e-7}, {"rk8pd", gsl_odeiv2_step_rk8pd, true, 1e-7}, {"msadams", gsl_odeiv2_step_msadams, true, 1e-7},
    {"rk2", gsl_odeiv2_step_rk2, false, 1e-6}, {"rk4", gsl_odeiv2_step_rk4, false, 1e-10}, {"rkf45", gsl_odeiv2_step_rkf45, false, 1e-10}, {"rkck", gsl_odeiv2_step_rkck, false, 1e-10}, {"rk8pd", gsl_odeiv2_step_rk8pd, false, 1e-10}};
  if (ar.reduced) modes = {modes[2], modes[5], modes[7]};
  std::vector<int> nxs = th ? std::vector<int>{1, 2, 3} : std::vector<int>{1, 2}, dims2 = th ? std::vector<int>{2, 3, 4, 5, 6} : std::vector<int>{2, 3}, nscs = th ? std::vector<int>{0, 1, 2} : std::vector<int>{0, 1};
  if (ar.reduced) { nxs = {2}; dims2 = {3}; nscs = {1}; }
  for (auto& m : modes) for (int nx : nxs) for (int d : dims2) for (int nrho = 1; nrho <= 2; nrho++) for (int nsc : nscs) for (int sw = 0; sw < 32; sw++) for (double tini : {0.0, 1.5}) {
    if (ar.reduced && sw % 7 != 3 && sw != 31) continue;
    if ((caseno++ % ar.nshards) != ar.shard) continue;
    Problem p; p.nx = nx; p.d = d; p.nrho = nrho; p.nsc = nsc; for (int b = 0; b < 5; b++) p.sw[b] = (sw >> b) & 1; p.family = 0; p.kappa = 0.3; p.kappa2 = p.sw[4] ? 0.0 : 0.2;
    layer2_run(p, m, tini, "closed-form");
  }
  // the evolved object is move-constructed / move-assigned (into a fresh and over a used object of another shape): every shape, two stepper modes
  for (int mi : {2, 7}) for (int nx = 1; nx <= 3; nx++) for (int d : {2, 3}) for (int nrho = 1; nrho <= 2; nrho++) for (int nsc = 0; nsc <= 2; nsc++) for (int via = 1; via <= 6; via++) {
    if ((size_t)mi >= modes.size()) continue;
    if ((caseno++ % ar.nshards) != ar.shard) continue;
    Problem p; p.nx = nx; p.d = d; p.nrho = nrho; p.nsc = nsc; for (int b = 0; b < 5; b++) p.sw[b] = 1; p.family = 0; p.kappa = 0.3; p.kappa2 = 0.0;
    layer2_run(p, modes[mi], 1.5, "closed-form", 1, via);
  }
  // the solver is evolved, re-initialised with the same shape (and with another one), given a new state and evolved again
  for (int mi : {2, 5, 7, 8}) for (int nx : {1, 3}) for (int d : {2, 3}) for (int reshape = 0; reshape < 2; reshape++) {
    if ((size_t)mi >= modes.size()) continue;
    if ((caseno++ % ar.nshards) != ar.shard) continue;
    const Mode& m = modes[mi];
    Problem p0; p0.nx = reshape ? nx + 1 : nx; p0.d = reshape ? (d == 2 ? 3 : 2) : d; p0.nrho = 1; p0.nsc = 1; for (int b = 0; b < 5; b++) p0.sw[b] = 1; p0.family = 0; p0.kappa = 0.3; p0.kappa2 = 0.0;
    Problem p = p0; p.nx = nx; p.d = d;
    Probe s(p0, 0.5); auto conf = [&](Probe& q) { q.Set_GSL_step(m.type); q.Set_AdaptiveStep(m.adaptive); if (m.adaptive) { q.Set_rel_error(1e-10); q.Set_abs_error(1e-10); q.Set_h(1e-4); } else { q.Set_NumSteps(2000); q.Set_rel_error(1e-2); q.Set_abs_error(1e-2); } };
    conf(s); s.set_flat(probe_state(p0, 1));
    count("evaluations"); count("reinitialised_solver_runs"); distinct(ref::fnv(m.name, strlen(m.name), nx * 100 + d * 10 + reshape + (m.adaptive ? 1000 : 0)));
    std::string ctx = "{\"layer\":\"re-ini\",\"problem\":" + pjson(p) + ",\"stepper\":" + jstr(m.name) + ",\"adaptive\":" + (m.adaptive ? "true" : "false") + ",\"reshaped\":" + std::to_string(reshape) + "}";
    set_case(ctx);
    try { s.Evolve(0.4); s.P = p; s.ini(p.nx, p.d, p.nrho, p.nsc, 1.5); s.apply_switches(); conf(s); std::vector<double> y0 = probe_state(p, 0); s.set_flat(y0); s.Evolve(1.0);
      std::vector<double> got = s.get_flat(), want = p.exact(y0, 1.5, 2.5); double scale = std::max(maxabs(y0), maxabs(want)), e = maxdiff(got, want), tol = m.tol * scale;
      if (!(e <= tol) || !(std::fabs(s.Get_t() - 2.5) <= 4096 * ref::EPS * 2.5) || !s.views_coincide()) violation("Evolve:solution-mismatch:after-re-initialisation", "{\"case\":" + ctx + ",\"err\":" + jnum(e) + ",\"tol\":" + jnum(tol) + ",\"t\":" + jnum(s.Get_t()) + "}"); }
    catch (const std::exception& ex) { violation(std::string("Evolve:throws:") + m.name + ":after-re-initialisation", "{\"case\":" + ctx + ",\"what\":" + jstr(ex.what()) + "}"); }
    set_case("");
  }
  // several consecutive Evolve calls over the same interval, every stepper mode, time-dependent terms
  for (auto& m : modes) for (int d : dims2) for (int sw : {1, 9, 27, 31}) for (int ncalls : {2, 3}) {
    if ((caseno++ % ar.nshards) != ar.shard) continue;
    Problem p; p.nx = 2; p.d = d; p.nrho = 1; p.nsc = 1; for (int b = 0; b < 5; b++) p.sw[b] = (sw >> b) & 1; p.family = 0; p.kappa = 0.3; p.kappa2 = p.sw[4] ? 0.0 : 0.2;
    layer2_run(p, m, 1.5, "closed-form", ncalls);
  }
  // requested tolerances of different kinds (adaptive modes only)
  for (auto& m : modes) for (int d : {2, 3}) {
    if (!m.adaptive) continue;
    if ((caseno++ % ar.nshards) != ar.shard) continue;
    Problem p; p.nx = 2; p.d = d; p.nrho = 1; p.nsc = 1; bool sw[5] = {true, true, false, true, false}; for (int b = 0; b < 5; b++) p.sw[b] = sw[b]; p.family = 0; p.kappa = 0.3; p.kappa2 = 0.2;
    tolerance_run(p, m, 1e-10, 1e-9, 1e-200, 1e-5);   // relative control only: a state of size 1e-10 must still be right to ~1e-9 relative
    tolerance_run(p, m, 1e8, 1e-200, 1e-6, 1e-11);    // absolute control only: a state of size 1e8 must be right to ~1e-6 absolute (1e-3 accepted)
  }
  // the same problem in other time units (rates x S, times / S): many short Evolve calls whose |dt| is far below 1 (and below
  // machine epsilon) while rate x dt is not small; the solution depends on S*t only
  for (double S : {1e16, 4e17, 1e-12}) for (int mi : {1, 7}) for (int d : {2, 3}) {
    if ((size_t)mi >= modes.size()) continue;
    if ((caseno++ % ar.nshards) != ar.shard) continue;
    const Mode& m = modes[mi];
    Problem p; p.nx = 2; p.d = d; p.nrho = 1; p.nsc = 1; for (int b = 0; b < 5; b++) p.sw[b] = (b != 2 && b != 4); p.family = 0; p.kappa = 0.3; p.kappa2 = 0.2; p.tscale = S;
    Probe s(p, 0.5 / S); s.Set_GSL_step(m.type); s.Set_AdaptiveStep(m.adaptive);
    if (m.adaptive) { s.Set_rel_error(1e-10); s.Set_abs_error(1e-10); s.Set_h(1e-4 / S); } else { s.Set_NumSteps(100); s.Set_rel_error(1e-2); s.Set_abs_error(1e-2); }
    std::vector<double> y0 = probe_state(p, 0); s.set_flat(y0);
    count("evaluations"); count("rescaled_time_runs"); { uint64_t h = ref::fnv(&S, 8, d * 10 + mi); distinct(h); }
    std::string ctx = "{\"layer\":\"time-units\",\"problem\":" + pjson(p) + ",\"time_scale\":" + jnum(S) + ",\"stepper\":" + jstr(m.name) + ",\"adaptive\":" + (m.adaptive ? "true" : "false") + "}";
    try { for (int k = 0; k < 20; k++) s.Evolve(0.05 / S); }
    catch (const std::exception& ex) { violation(std::string("Evolve:throws:") + m.name + ":rescaled-time", "{\"case\":" + ctx + ",\"what\":" + jstr(ex.what()) + "}"); continue; }
    std::vector<double> got = s.get_flat(), want = p.exact(y0, 0.5 / S, 1.5 / S);
    double scale = std::max(maxabs(y0), maxabs(want)), e = maxdiff(got, want), tol = 20 * std::max(m.tol, 1e-6) * scale;
    if (!(e <= tol) || !(std::fabs(s.Get_t() * S - 1.5) <= 1e-9)) violation("Evolve:solution-mismatch:rescaled-time-units", "{\"case\":" + ctx + ",\"err\":" + jnum(e) + ",\"tol\":" + jnum(tol) + ",\"t_times_S\":" + jnum(s.Get_t() * S) + "}");
  }
  // fixed stepping that is too coarse for the requested tolerance (and some that is not): every fixed mode
  for (auto& m : modes) for (int d : {2, 3}) for (int sw : {8, 1, 31, 9}) for (int nsteps : {3, 10, 60}) for (double tolreq : {1e-9, 1e-5, 1e-2}) {
    if (m.adaptive) continue;
    if ((caseno++ % ar.nshards) != ar.shard) continue;
    Problem p; p.nx = 2; p.d = d; p.nrho = 1; p.nsc = 1; for (int b = 0; b < 5; b++) p.sw[b] = (sw >> b) & 1; p.family = 0; p.kappa = 0.9; p.kappa2 = p.sw[4] ? 0.0 : 0.8;
    coarse_fixed_run(p, m, nsteps, tolreq);
  }
  // family 1: non-commuting, time independent, no source: rho(t) = e^{K tau} rho0 e^{K^dagger tau}
  for (auto& m : modes) for (int nx = 1; nx <= 2; nx++) for (int d = 2; d <= 6; d++) for (int nrho = 1; nrho <= 2; nrho++) for (int sw = 1; sw <= 3; sw++) {
    if (ar.reduced && d > 3) continue;
    if ((caseno++ % ar.nshards) != ar.shard) continue;
    Problem p; p.nx = nx; p.d = d; p.nrho = nrho; p.nsc = 0; for (int b = 0; b < 5; b++) p.sw[b] = (sw >> b) & 1; p.family = 1; p.kappa = 0; p.kappa2 = 0;
    layer2_run(p, m, 0.5, "matrix-exponential");
  }
  // time-dependent terms together with sources: independent RK4 reference
  for (auto& m : modes) for (int d = 2; d <= 6; d++) {
    if (ar.reduced && d > 3) continue;
    if ((caseno++ % ar.nshards) != ar.shard) continue;
    Problem p; p.nx = 2; p.d = d; p.nrho = 2; p.nsc = 2; for (int b = 0; b < 5; b++) p.sw[b] = 1; p.family = 0; p.kappa = 0.3; p.kappa2 = 0.2;
    layer2_run(p, m, 1.5, "rk4-reference");
  }
  finish();
  return 0;
}
