// Deterministic arena behind global operator new[] / delete[] (the forms the library uses for every block it
// allocates itself), with an allocation ledger, explorer-chosen alignment answers and fault injection.
// Include in exactly one translation unit of a harness (it defines the replacement operators).
#pragma once
#include <cstddef>
#include <cstdint>
#include <cstdlib>
#include <cstring>
#include <new>
#include <vector>
#include <string>

#if defined(__has_feature)
#if __has_feature(address_sanitizer)
#define VF_ASAN 1
#endif
#endif
#if defined(__SANITIZE_ADDRESS__)
#define VF_ASAN 1
#endif
#ifdef VF_ASAN
#include <sanitizer/asan_interface.h>
#define VF_POISON(p, n) ASAN_POISON_MEMORY_REGION(p, n)
#define VF_UNPOISON(p, n) ASAN_UNPOISON_MEMORY_REGION(p, n)
#else
#define VF_POISON(p, n) ((void)0)
#define VF_UNPOISON(p, n) ((void)0)
#endif

namespace arena {

struct Block { char* data; size_t size; bool live; int id; int align16; long serial; };

struct Arena {
  static const size_t CAP = 48u << 20;
  char* base = nullptr; size_t top = 0;
  std::vector<Block> blocks;        // all blocks of this episode, in allocation order
  bool active = false;              // route new[]/delete[] through the arena?
  int align_mode = 0;               // 0: data at 0 mod 32, 1: data at 16 mod 32, 2: alternating
  long alloc_count = 0;             // allocation points seen (for fault injection)
  long fail_at = -1;                // fail the allocation with this ordinal (0-based), -1: never
  bool fault_fired = false;         // the injected failure actually happened
  bool count_scalar = false;        // scalar operator new also counts as an allocation point (C16)
  bool counting = true;             // allocation points are numbered (and faults injected) only while this is set: the harness
                                    // switches it on around library calls so that its own bookkeeping allocations do not count
  bool internal = false;            // inside the arena's own bookkeeping
  void (*hook)() = nullptr;         // called before every arena allocation / release (scheduling point of the thread explorer)
  // ledger errors
  long double_free = 0, foreign_free = 0, interior_free = 0;
  std::string first_error;
  void init() { if (!base) { base = (char*)std::malloc(CAP + 64); base = (char*)(((uintptr_t)base + 63) & ~(uintptr_t)63); } }
  void reset() {  // start a new episode: same addresses again
    init();
    VF_UNPOISON(base, top + 64 <= CAP ? top + 64 : CAP);
    top = 0; blocks.clear(); alloc_count = 0; fail_at = -1; fault_fired = false; double_free = foreign_free = interior_free = 0; first_error.clear();
  }
  void* alloc(size_t n) {
    if (hook) hook();
    long ord = alloc_count;
    if (counting) { alloc_count++; if (ord == fail_at) { fault_fired = true; throw std::bad_alloc(); } }
    init();
    size_t RZ = 64;
    size_t start = (top + RZ + 31) & ~(size_t)31;            // 32-aligned
    int a16 = align_mode == 0 ? 0 : (align_mode == 1 ? 1 : (int)(blocks.size() & 1));
    if (a16) start += 16;
    size_t need = n ? n : 1;
    if (start + need + RZ > CAP) { first_error = "arena exhausted"; std::abort(); }
    VF_POISON(base + top, start - top);                       // red zone before
    VF_UNPOISON(base + start, need);
    top = start + ((need + 7) & ~(size_t)7);
    VF_POISON(base + top, RZ);
    Block b; b.data = base + start; b.size = n; b.live = true; b.id = (int)blocks.size(); b.align16 = a16; b.serial = ord;
    internal = true; blocks.push_back(b); internal = false;
    return b.data;
  }
  Block* find(const void* p) {  // block containing p (live or dead)
    const char* c = (const char*)p;
    if (!base || c < base || c >= base + top + 64) return nullptr;
    // binary search by data pointer
    size_t lo = 0, hi = blocks.size();
    while (lo < hi) { size_t mid = (lo + hi) / 2; if (blocks[mid].data <= c) lo = mid + 1; else hi = mid; }
    if (lo == 0) return nullptr;
    Block& b = blocks[lo - 1];
    if (c >= b.data && c < b.data + (b.size ? b.size : 1)) return &b;
    return nullptr;
  }
  bool owns(const void* p) const { const char* c = (const char*)p; return base && c >= base && c < base + CAP; }
  void release(void* p) {
    if (!p) return;
    if (hook) hook();
    Block* b = find(p);
    if (!b) { foreign_free++; if (first_error.empty()) first_error = "delete[] of an address that is not an arena block"; return; }
    if (b->data != (char*)p) { interior_free++; if (first_error.empty()) first_error = "delete[] of an interior pointer (wrong ptr_offset)"; return; }
    if (!b->live) { double_free++; if (first_error.empty()) first_error = "double delete[] of a block"; return; }
    b->live = false;
    VF_POISON(b->data, b->size ? b->size : 1);
  }
  long live_blocks() const { long n = 0; for (auto& b : blocks) if (b.live) n++; return n; }
  long errors() const { return double_free + foreign_free + interior_free; }
};

inline Arena& A() { static Arena a; return a; }

struct Counting { bool old; Counting() : old(A().counting) { A().counting = true; } ~Counting() { A().counting = old; } };

}  // namespace arena

// ---- replacement operators ----
void* operator new[](std::size_t n) {
  arena::Arena& a = arena::A();
  if (a.active) return a.alloc(n);
  void* p = std::malloc(n ? n : 1); if (!p) throw std::bad_alloc(); return p;
}
void operator delete[](void* p) noexcept {
  arena::Arena& a = arena::A();
  if (p && a.owns(p)) { a.release(p); return; }
  if (a.active && p) {  // a non-arena pointer given to delete[] while the arena is routing: either allocated before activation, or a user buffer
    // blocks allocated before activation come from malloc; we cannot tell them from user buffers, so the harness never lets such blocks exist
    a.foreign_free++; if (a.first_error.empty()) a.first_error = "delete[] of a non-arena address (user buffer?)"; return;
  }
  std::free(p);
}
void operator delete[](void* p, std::size_t) noexcept { operator delete[](p); }
void* operator new(std::size_t n) {
  arena::Arena& a = arena::A();
  if (a.active && a.count_scalar && a.counting && !a.internal) { long ord = a.alloc_count++; if (ord == a.fail_at) { a.fault_fired = true; throw std::bad_alloc(); } }
  void* p = std::malloc(n ? n : 1); if (!p) throw std::bad_alloc(); return p;
}
void operator delete(void* p) noexcept { std::free(p); }
void operator delete(void* p, std::size_t) noexcept { std::free(p); }
