// Glue between the library under test and the reference model.
#pragma once
#include <SQuIDS/SUNalg.h>
#include <SQuIDS/const.h>
#include <map>
#include <gsl/gsl_matrix.h>
#include <gsl/gsl_errno.h>
#include "ref.hpp"
#include "common.hpp"

namespace vf {
using squids::SU_vector;
using ref::Mat;
using ref::cd;

inline Mat gsl2mat(const gsl_matrix_complex* g) {
  Mat m((int)g->size1);
  for (int i = 0; i < m.n; i++) for (int j = 0; j < m.n; j++) { gsl_complex z = gsl_matrix_complex_get(g, i, j); m(i, j) = cd(GSL_REAL(z), GSL_IMAG(z)); }
  return m;
}
struct GslMat {
  gsl_matrix_complex* g;
  explicit GslMat(const Mat& m) : g(gsl_matrix_complex_alloc(m.n, m.n)) { for (int i = 0; i < m.n; i++) for (int j = 0; j < m.n; j++) gsl_matrix_complex_set(g, i, j, gsl_complex_rect(m(i, j).real(), m(i, j).imag())); }
  GslMat(int r, int c) : g(gsl_matrix_complex_calloc(r, c)) {}
  ~GslMat() { gsl_matrix_complex_free(g); }
  GslMat(const GslMat&) = delete;
  operator gsl_matrix_complex*() { return g; }
};
inline std::vector<double> comps(const SU_vector& v) { std::vector<double> c(v.Size()); for (unsigned i = 0; i < v.Size(); i++) c[i] = v[i]; return c; }
// reference matrix of a vector: linear combination in the documented basis (does
// NOT call the library's SUToMatrix kernels)
inline Mat refmat(const SU_vector& v) { return ref::basis(v.Dim()).tomat(comps(v)); }
// vector with given components, built through operator[] only
inline SU_vector mkvec(int d, const std::vector<double>& c) { SU_vector v(d); for (int k = 0; k < d * d; k++) v[k] = c[k]; return v; }
inline SU_vector mkvec(int d, const Mat& m) { return mkvec(d, ref::basis(d).proj(m)); }
inline double maxabs(const std::vector<double>& c) { double m = 0; for (double x : c) m = std::max(m, std::fabs(x)); return m; }
inline double maxdiff(const std::vector<double>& a, const std::vector<double>& b) {
  if (a.size() != b.size()) return INFINITY;
  double m = 0; for (size_t i = 0; i < a.size(); i++) { double d = std::fabs(a[i] - b[i]); if (!(d <= m)) m = d; } return m;  // NaN propagates
}
inline bool allfinite(const std::vector<double>& a) { for (double x : a) if (!std::isfinite(x)) return false; return true; }
inline uint64_t hashvec(const std::vector<double>& c, uint64_t h = 1469598103934665603ULL) { return ref::fnv(c.data(), c.size() * sizeof(double), h); }

// ---- alphabets of component vectors ----
inline std::vector<double> unit(int d, int k, double s = 1.0) { std::vector<double> c((size_t)d * d, 0.0); c[k] = s; return c; }
inline std::vector<double> twohot(int d, int k, int l, double a, double b) { std::vector<double> c((size_t)d * d, 0.0); c[k] = a; c[l] = b; return c; }
// three fixed dense probes with distinct non-zero components of mixed sign
inline std::vector<double> probe(int d, int which) {
  std::vector<double> c((size_t)d * d);
  for (int k = 0; k < d * d; k++) {
    double x = std::sin(1.0 + 0.7 * k + 2.3 * which) * (1.0 + 0.13 * k) + 0.05 * (which + 1);
    if ((k + which) % 3 == 0) x = -x * 1.5;
    c[k] = x;
  }
  return c;
}
inline std::vector<double> scaled(std::vector<double> c, double s) { for (auto& x : c) x *= s; return c; }

inline void quiet_gsl() { gsl_set_error_handler_off(); }

// "State left behind by an earlier call": a burst of unrelated library calls with dense complex data in several
// dimensions, whose results are discarded. Enumerators call it between cases so that any scratch state the library keeps
// (thread-local matrices, recycled storage blocks, cached intermediate results) is dirty when the case under test runs.
inline void pollute(int d) {
  try {
    for (int dd : {d, d == 6 ? 3 : d + 1}) {
      Mat Hm(dd); for (int i = 0; i < dd; i++) for (int j = 0; j < dd; j++) { cd z(std::cos(1.3 * i + 0.7 * j + dd), std::sin(0.4 * i - 1.1 * j + 0.5)); Hm(i, j) += z; Hm(j, i) += std::conj(z); }
      GslMat g(Hm);
      SU_vector a(g.g), b = mkvec(dd, probe(dd, 1));
      { auto m = a.GetGSLMatrix(); (void)m; }
      Mat U = ref::eye(dd); U(0, 0) = std::cos(0.7); U(1, 1) = std::cos(0.7); U(0, 1) = std::sin(0.7) * std::exp(cd(0, -0.9)); U(1, 0) = -std::sin(0.7) * std::exp(cd(0, 0.9));
      GslMat Ug(U);
      { SU_vector r = a.Rotate(Ug.g); SU_vector r2 = a.UTransform(Ug.g); SU_vector r3 = a.UDaggerTransform(Ug.g); (void)r; (void)r2; (void)r3; }
      { SU_vector e = a.UTransform(b, gsl_complex_rect(0, 0.37)); (void)e; }
      { auto es = a.GetEigenSystem(true); (void)es; }
      { SU_vector c = squids::iCommutator(a, b); SU_vector ac = squids::ACommutator(a, b); c += ac; volatile double t = a * c; (void)t; }
      { std::vector<double> e(dd); for (int j = 0; j < dd; j++) e[j] = 0.3 * j * j - 0.5; SU_vector H = mkvec(dd, ref::basis(dd).proj(ref::diag(e))); std::vector<double> buf(dd * (dd - 1)); std::vector<bool> avr(dd * (dd - 1) / 2);
        H.PrepareEvolve(buf.data(), 0.77, 0.9, avr); SU_vector ev = a.Evolve(buf.data()); SU_vector ev2 = a.Evolve(H, -1.3); ev += ev2; }
      { SU_vector p = SU_vector::Projector(dd, dd - 1) + SU_vector::PosProjector(dd, 1); SU_vector q = SU_vector::Generator(dd, dd * dd - 1) * 3.0; p -= q; }
      { SU_vector r = a.Rotate(0, dd - 1, 0.4, 1.1); (void)r; }
    }
  } catch (const std::exception&) {}
}

// ---- calls made while namespace-scope objects are being initialised ----
// A global table of constant operators or a solver object at namespace scope is ordinary use, and the harness objects are
// linked before the library's: whatever the library needs must not depend on its own dynamic initialisers having run.
// A harness that defines VF_EARLY before including this header evaluates the batteries below from a namespace-scope
// initialiser; check_early() re-evaluates them from main() and compares bit for bit (differential oracle: the later call
// is the one the enumerations of that property check against the reference model).
inline std::vector<double> early_battery(int cat) {
  std::vector<double> out; auto put = [&](const SU_vector& v) { for (unsigned i = 0; i < v.Size(); i++) out.push_back(v[i]); };
  try {
    for (int d = 2; d <= 6; d++) {
      SU_vector a = mkvec(d, probe(d, 0)), b = mkvec(d, probe(d, 1));
      GslMat Hd(d, d); for (int i = 0; i < d; i++) gsl_matrix_complex_set(Hd.g, i, i, gsl_complex_rect(0.4 * i - 0.1 * i * i + 0.05, 0));
      switch (cat) {
        case 1: { auto m = a.GetGSLMatrix(); for (int i = 0; i < d; i++) for (int j = 0; j < d; j++) { gsl_complex z = gsl_matrix_complex_get(m.get(), i, j); out.push_back(GSL_REAL(z)); out.push_back(GSL_IMAG(z)); }
          SU_vector r(m.get()); put(r); SU_vector s = a + b; put(s); SU_vector t = a * 2.5; put(t); SU_vector n = -a; put(n); std::vector<double> c = a.GetComponents(); SU_vector l(c); put(l);
          SU_vector tr = a; tr.Transpose(); put(tr); SU_vector re = a.Real(); put(re); SU_vector im = a.Imag(); put(im); } break;
        case 2: { SU_vector c(squids::iCommutator(a, b)); put(c); SU_vector e(squids::ACommutator(a, b)); put(e); out.push_back(a * b); } break;
        case 3: { SU_vector H(Hd.g); SU_vector e = a.Evolve(H, 0.7); put(e); std::vector<double> buf(d * (d - 1)); H.PrepareEvolve(buf.data(), -1.3); SU_vector e2 = a.Evolve(buf.data()); put(e2); } break;
        case 6: { SU_vector r = a.Rotate(0, d - 1, 0.4, 1.1); put(r); squids::Const par; par.SetMixingAngle(0, 1, 0.6); par.SetPhase(0, 1, 0.3); if (d > 2) par.SetMixingAngle(1, 2, -0.8);
          SU_vector v1 = a; v1.RotateToB1(par); put(v1); SU_vector v0 = a; v0.RotateToB0(par); put(v0); auto U = par.GetTransformationMatrix(d); SU_vector u = a.UTransform(U.get()); put(u); SU_vector w = a.UDaggerTransform(U.get()); put(w); SU_vector x = a.Rotate(U.get()); put(x); } break;
        case 7: { SU_vector e = a.UTransform(b, gsl_complex_rect(0, 0.37)); put(e); SU_vector f = b.UTransform(a, gsl_complex_rect(0.2, -1.9)); put(f); } break;
        case 11: { SU_vector H(Hd.g); int np = d * (d - 1) / 2; std::vector<double> buf(2 * np); std::vector<bool> avr(np);
          H.PrepareEvolve(buf.data(), 2.0, 0.37, avr); out.insert(out.end(), buf.begin(), buf.end()); for (bool f : avr) out.push_back(f);
          H.PrepareEvolve(buf.data(), 0.5, 10.0); out.insert(out.end(), buf.begin(), buf.end());
          H.PrepareEvolve(buf.data(), 1.0); H.LowPassFilter(buf.data(), 0.5, 0.1); out.insert(out.end(), buf.begin(), buf.end());
          H.PrepareEvolve(buf.data(), 1.0); H.AvgRampFilter(buf.data(), 1.0, 0.5, 0.1); out.insert(out.end(), buf.begin(), buf.end()); } break;
        case 12: { auto es = a.GetEigenSystem(true); for (int i = 0; i < d; i++) out.push_back(gsl_vector_get(es.first.get(), i));
          for (int i = 0; i < d; i++) for (int j = 0; j < d; j++) { gsl_complex z = gsl_matrix_complex_get(es.second.get(), i, j); out.push_back(GSL_REAL(z)); out.push_back(GSL_IMAG(z)); } } break;
      }
    }
  } catch (const std::exception&) { out.push_back(-12345.678); }
  return out;
}
struct EarlyResults { std::map<int, std::vector<double>> r; EarlyResults() { gsl_set_error_handler_off(); for (int c : {1, 2, 3, 6, 7, 11, 12}) r[c] = early_battery(c); } };
#ifdef VF_EARLY
static const EarlyResults g_early_results;
inline void check_early(std::initializer_list<int> cats) {
  static const char* NM[] = {"", "conversions-and-linear-operations", "commutators-and-trace", "evolution", "", "", "rotations-and-basis-changes", "exponential-transform", "", "", "", "averaging-tables-and-filters", "eigen-decomposition"};
  for (int c : cats) {
    std::vector<double> now = early_battery(c); const std::vector<double>& then = g_early_results.r.at(c);
    count("evaluations"); count("values_compared_with_static_initialisation_time_calls", (long long)now.size());
    bool same = now.size() == then.size(); size_t bad = 0; for (size_t i = 0; same && i < now.size(); i++) if (!ref::biteq(now[i], then[i]) && !(std::isnan(now[i]) && std::isnan(then[i]))) { same = false; bad = i; }
    if (!same) violation(std::string("called-during-static-initialisation:") + NM[c] + ":differs-from-later-call", J().i("battery", c).i("first_differing_value", (long long)bad).num("early", bad < then.size() ? then[bad] : NAN).num("later", bad < now.size() ? now[bad] : NAN).done());
  }
}
#endif

inline void maybe_pollute(int d, long every = 61) { static long n = 0; if (++n % every == 0) pollute(d); }

}  // namespace vf
