// Glue between the library under test and the reference model.
#pragma once
#include <SQuIDS/SUNalg.h>
#include <gsl/gsl_matrix.h>
#include <gsl/gsl_errno.h>
#include "ref.hpp"
#include "common.hpp"

namespace vf {
using squids::SU_vector;
using ref::Mat;
using ref::cd;

inline Mat gsl2mat(const gsl_matrix_complex* g) {
  Mat m((int)g->size1);
  for (int i = 0; i < m.n; i++) for (int j = 0; j < m.n; j++) { gsl_complex z = gsl_matrix_complex_get(g, i, j); m(i, j) = cd(GSL_REAL(z), GSL_IMAG(z)); }
  return m;
}
struct GslMat {
  gsl_matrix_complex* g;
  explicit GslMat(const Mat& m) : g(gsl_matrix_complex_alloc(m.n, m.n)) { for (int i = 0; i < m.n; i++) for (int j = 0; j < m.n; j++) gsl_matrix_complex_set(g, i, j, gsl_complex_rect(m(i, j).real(), m(i, j).imag())); }
  GslMat(int r, int c) : g(gsl_matrix_complex_calloc(r, c)) {}
  ~GslMat() { gsl_matrix_complex_free(g); }
  GslMat(const GslMat&) = delete;
  operator gsl_matrix_complex*() { return g; }
};
inline std::vector<double> comps(const SU_vector& v) { std::vector<double> c(v.Size()); for (unsigned i = 0; i < v.Size(); i++) c[i] = v[i]; return c; }
// reference matrix of a vector: linear combination in the documented basis (does
// NOT call the library's SUToMatrix kernels)
inline Mat refmat(const SU_vector& v) { return ref::basis(v.Dim()).tomat(comps(v)); }
// vector with given components, built through operator[] only
inline SU_vector mkvec(int d, const std::vector<double>& c) { SU_vector v(d); for (int k = 0; k < d * d; k++) v[k] = c[k]; return v; }
inline SU_vector mkvec(int d, const Mat& m) { return mkvec(d, ref::basis(d).proj(m)); }
inline double maxabs(const std::vector<double>& c) { double m = 0; for (double x : c) m = std::max(m, std::fabs(x)); return m; }
inline double maxdiff(const std::vector<double>& a, const std::vector<double>& b) {
  if (a.size() != b.size()) return INFINITY;
  double m = 0; for (size_t i = 0; i < a.size(); i++) { double d = std::fabs(a[i] - b[i]); if (!(d <= m)) m = d; } return m;  // NaN propagates
}
inline bool allfinite(const std::vector<double>& a) { for (double x : a) if (!std::isfinite(x)) return false; return true; }
inline uint64_t hashvec(const std::vector<double>& c, uint64_t h = 1469598103934665603ULL) { return ref::fnv(c.data(), c.size() * sizeof(double), h); }

// ---- alphabets of component vectors ----
inline std::vector<double> unit(int d, int k, double s = 1.0) { std::vector<double> c((size_t)d * d, 0.0); c[k] = s; return c; }
inline std::vector<double> twohot(int d, int k, int l, double a, double b) { std::vector<double> c((size_t)d * d, 0.0); c[k] = a; c[l] = b; return c; }
// three fixed dense probes with distinct non-zero components of mixed sign
inline std::vector<double> probe(int d, int which) {
  std::vector<double> c((size_t)d * d);
  for (int k = 0; k < d * d; k++) {
    double x = std::sin(1.0 + 0.7 * k + 2.3 * which) * (1.0 + 0.13 * k) + 0.05 * (which + 1);
    if ((k + which) % 3 == 0) x = -x * 1.5;
    c[k] = x;
  }
  return c;
}
inline std::vector<double> scaled(std::vector<double> c, double s) { for (auto& x : c) x *= s; return c; }

inline void quiet_gsl() { gsl_set_error_handler_off(); }

}  // namespace vf
