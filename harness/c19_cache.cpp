// Instrumented translation unit for C19: instantiates squids::detail::cache in the SHARED (lock-free)
// configuration. Cache.h is included alone, so SQUIDS_THREAD_LOCAL is undefined. This file is compiled
// with -fsanitize=thread but linked against the explorer's own __tsan_* functions (c19.cpp): every
// access the compiler instrumented becomes a scheduling point of the explorer.
// With -DC19_THREAD_LOCAL_VARIANT the single-threaded variant is compiled instead (no instrumentation needed).
#include <cstdint>
#include <cstddef>
#include <new>
#ifdef C19_THREAD_LOCAL_VARIANT
#define SQUIDS_THREAD_LOCAL thread_local
#define OPSNAME OpsTL
#else
#ifdef SQUIDS_THREAD_LOCAL
#error "the shared variant must be compiled without SQUIDS_THREAD_LOCAL"
#endif
#define OPSNAME OpsShared
#endif
#include <SQuIDS/detail/Cache.h>
#include "c19_ops.h"

struct Tok { int id; Tok() : id(0) {} explicit Tok(int i) : id(i) {} };

template <unsigned N> struct Impl {
  typedef squids::detail::cache<Tok, N> C;
  static void construct(void* p) { new (p) C(); }
  static int insert(void* p, int id) { return static_cast<C*>(p)->insert(Tok(id)) ? 1 : 0; }
  static int get(void* p) { return static_cast<C*>(p)->get().id; }
};
#define ROW(N) {&Impl<N>::construct, &Impl<N>::insert, &Impl<N>::get, sizeof(typename Impl<N>::C)}
extern const CacheOps OPSNAME[5] = {{nullptr, nullptr, nullptr, 0}, ROW(1), ROW(2), ROW(3), ROW(4)};
