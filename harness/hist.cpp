// History explorer over a pool of SU_vectors and user buffers (properties C08, C15, C16).
//
//   state      = the operation history that reaches it, replayed on a fresh pool / fresh arena
//   key        = canonical abstract state from public observations (Dim, Size, storage class of &v[0], block
//                length / alignment / offset, cached blocks as a multiset, buffer bindings), minimised over
//                slot and buffer permutations (the alphabet and the oracle are symmetric under both)
//   search     = level-synchronous breadth-first search to closure (or a depth cap), sharded over forked workers;
//                a worker that dies has left the transition it was executing in shared memory
//   oracle     = reference model of value semantics with frame conditions, storage-disjointness invariants,
//                allocation ledger, teardown probe (destroy everything, clear the cache, ledger must be empty),
//                ASan/UBSan when built with them; in mode c16 every allocation point of every transition is failed.
#include "arena.hpp"
#include "bind.hpp"
#include <sys/mman.h>
#include <sys/wait.h>
#include <fcntl.h>
#include <chrono>
#include <algorithm>
#include <set>
#include <map>
#include <unordered_set>
#include <unordered_map>
#include <functional>
#include <gsl/gsl_vector.h>
#include <SQuIDS/const.h>
using namespace vf;
using squids::ElementwiseProduct;

// ------------------------------------------------------------------ configuration
static int NS = 3, NB = 2;
static std::vector<int> DIMS = {2, 3};
static std::string MODE = "c08";
static const int MAXS = 3, MAXB = 2, BUFLEN = 36, GUARD = 8;
static const double GUARDVAL = -7.25e77;

// ------------------------------------------------------------------ operations
enum Kind { K_RESET, K_SIZED, K_EXT, K_COPYC, K_MOVEC, K_COPYA, K_MOVEA, K_EXPRA, K_EXPRC, K_SETBACK, K_WRITE, K_WRITEBUF, K_CMP, K_FILL,
            // wider alphabet (c15/c16): values not modelled, or throwing constructors
            K_LIST, K_MATRIX, K_BADSIZED, K_BADEXT, K_FACTORY, K_GETCOMP, K_GSLMAT, K_ROTATE, K_ROTB, K_UTRANS, K_UTRANSEXP, K_EIGEN, K_WROT, K_EVOLVE, K_COMM, K_COMPOUND, K_SCALARPROD, K_TRANSPOSE, K_REALIMAG };
enum Form { F_RL_ADD, F_LR_ADD, F_RR_ADD, F_RL_SUB, F_R_NEG, F_R_MULS, F_S_MULR, F_RL_EP, F_LR_EP, F_RR_EP, F_LL_ADD, F_LL_SUB, F_L_NEG, NFORMS };
static const char* FORMNAME[] = {"move(j)+k", "j+move(k)", "move(j)+move(k)", "move(j)-k", "-move(j)", "move(j)*2", "2*move(j)", "EP(move(j),k)", "EP(j,move(k))", "EP(move(j),move(k))", "j+k", "j-k", "-j"};
static bool form_unary(int f) { return f == F_R_NEG || f == F_R_MULS || f == F_S_MULR || f == F_L_NEG; }
static bool form_rv_j(int f) { return f == F_RL_ADD || f == F_RR_ADD || f == F_RL_SUB || f == F_R_NEG || f == F_R_MULS || f == F_S_MULR || f == F_RL_EP || f == F_RR_EP; }
static bool form_rv_k(int f) { return f == F_LR_ADD || f == F_RR_ADD || f == F_LR_EP || f == F_RR_EP; }

struct Op { int kind, i, j, k, f, d, b, n; bool extra; };
static std::vector<Op> OPS;

static std::string opname(const Op& o) {
  switch (o.kind) {
    case K_RESET: return fmt("v%d=default", o.i);
    case K_SIZED: return fmt("v%d=SU_vector(%d)", o.i, o.d);
    case K_EXT: return fmt("v%d=SU_vector(%d,buf%d)", o.i, o.d, o.b);
    case K_COPYC: return fmt("v%d=SU_vector(v%d) [copy-construct]", o.i, o.j);
    case K_MOVEC: return fmt("v%d=SU_vector(move(v%d)) [move-construct]", o.i, o.j);
    case K_COPYA: return fmt("v%d=v%d", o.i, o.j);
    case K_MOVEA: return fmt("v%d=move(v%d)", o.i, o.j);
    case K_EXPRA: return fmt("v%d = %s [j=v%d,k=v%d]", o.i, FORMNAME[o.f], o.j, o.k);
    case K_EXPRC: return fmt("v%d = SU_vector(%s) [j=v%d,k=v%d]", o.i, FORMNAME[o.f], o.j, o.k);
    case K_SETBACK: return fmt("v%d.SetBackingStore(buf%d)", o.i, o.b);
    case K_WRITE: return fmt("write v%d", o.i);
    case K_WRITEBUF: return fmt("write buf%d", o.b);
    case K_CMP: return fmt("v%d==v%d", o.i, o.j);
    case K_FILL: return fmt("fill-cache(dim %d, %d blocks)", o.d, o.n);
    case K_LIST: return fmt("v%d=SU_vector(list of %d)", o.i, o.n);
    case K_MATRIX: return fmt("v%d=SU_vector(matrix %dx%d)", o.i, o.d, o.n);
    case K_BADSIZED: return fmt("v%d=SU_vector(%d) [invalid]", o.i, o.d);
    case K_BADEXT: return fmt("v%d=SU_vector(%d,buf%d) [invalid]", o.i, o.d, o.b);
    case K_FACTORY: return fmt("v%d=factory#%d(%d,%d)", o.i, o.f, o.d, o.n);
    case K_GETCOMP: return fmt("v%d.GetComponents()", o.i);
    case K_GSLMAT: return fmt("v%d.GetGSLMatrix()", o.i);
    case K_ROTATE: return fmt("v%d=v%d.Rotate(0,1,..)", o.i, o.j);
    case K_ROTB: return fmt("v%d.RotateToB%d(params)", o.i, o.f);
    case K_UTRANS: return fmt("v%d=v%d.UTransform/UDagger(matrix)#%d", o.i, o.j, o.f);
    case K_UTRANSEXP: return fmt("v%d=v%d.UTransform(v%d,i)", o.i, o.j, o.k);
    case K_EIGEN: return fmt("v%d.GetEigenSystem()", o.i);
    case K_WROT: return fmt("v%d.WeightedRotation#%d(..,v%d,..)", o.i, o.f, o.j);
    case K_EVOLVE: return fmt("v%d=v%d.Evolve(v%d,t)#%d", o.i, o.j, o.k, o.f);
    case K_COMM: return fmt("v%d=%sCommutator(v%d,v%d)", o.i, o.f ? "A" : "i", o.j, o.k);
    case K_COMPOUND: return fmt("v%d %s v%d", o.i, o.f == 0 ? "+=" : (o.f == 1 ? "-=" : (o.f == 2 ? "+= 2*" : "-= iComm(.,.) of")), o.j);
    case K_SCALARPROD: return fmt("v%d*v%d", o.i, o.j);
    case K_TRANSPOSE: return fmt("v%d.Transpose()", o.i);
    case K_REALIMAG: return fmt("v%d=v%d.%s()", o.i, o.j, o.f ? "Imag" : "Real");
  }
  return "?";
}

static void build_ops() {
  OPS.clear();
  auto add = [&](Op o) { OPS.push_back(o); };
  bool wide = (MODE == "c15" || MODE == "c16");   // "c15core": the core alphabet of c08 with the leak oracle of c15
  for (int i = 0; i < NS; i++) add(Op{K_RESET, i, 0, 0, 0, 0, 0, 0, false});
  for (int i = 0; i < NS; i++) for (int d : DIMS) add(Op{K_SIZED, i, 0, 0, 0, d, 0, 0, false});
  for (int i = 0; i < NS; i++) for (int b = 0; b < NB; b++) for (int d : DIMS) add(Op{K_EXT, i, 0, 0, 0, d, b, 0, false});
  for (int i = 0; i < NS; i++) for (int j = 0; j < NS; j++) if (i != j) { add(Op{K_COPYC, i, j, 0, 0, 0, 0, 0, false}); add(Op{K_MOVEC, i, j, 0, 0, 0, 0, 0, false}); }
  for (int i = 0; i < NS; i++) for (int j = 0; j < NS; j++) { add(Op{K_COPYA, i, j, 0, 0, 0, 0, 0, false}); add(Op{K_MOVEA, i, j, 0, 0, 0, 0, 0, false}); }
  for (int f = 0; f < NFORMS; f++) for (int i = 0; i < NS; i++) for (int j = 0; j < NS; j++) for (int k = 0; k < NS; k++) {
    if (form_unary(f)) { if (k != j) continue; }
    else if (j == k && (form_rv_j(f) || form_rv_k(f))) continue;
    add(Op{K_EXPRA, i, j, k, f, 0, 0, 0, false});
    if (i != j && i != k) add(Op{K_EXPRC, i, j, k, f, 0, 0, 0, false});
  }
  for (int i = 0; i < NS; i++) for (int b = 0; b < NB; b++) add(Op{K_SETBACK, i, 0, 0, 0, 0, b, 0, false});
  for (int i = 0; i < NS; i++) add(Op{K_WRITE, i, 0, 0, 0, 0, 0, 0, false});
  for (int b = 0; b < NB; b++) add(Op{K_WRITEBUF, 0, 0, 0, 0, 0, b, 0, false});
  for (int i = 0; i < NS; i++) for (int j = 0; j < NS; j++) add(Op{K_CMP, i, j, 0, 0, 0, 0, 0, false});
  if (wide) {
    for (int i = 0; i < NS; i++) {
      for (int n : {4, 9, 3, 1, 49}) add(Op{K_LIST, i, 0, 0, 0, 0, 0, n, true});
      for (int rc : {22, 33, 23, 11, 77}) add(Op{K_MATRIX, i, 0, 0, 0, rc / 10, 0, rc % 10, true});
      for (int d : {1, 7}) { add(Op{K_BADSIZED, i, 0, 0, 0, d, 0, 0, true}); add(Op{K_BADEXT, i, 0, 0, 0, d, 0, 0, true}); }
      for (int fk = 0; fk < 6; fk++) for (int d : {2, 3, 7}) for (int idx : {0, 1, 9}) { if (fk == 1 && idx) continue; add(Op{K_FACTORY, i, 0, 0, fk, d, 0, idx, true}); }
      add(Op{K_GETCOMP, i, 0, 0, 0, 0, 0, 0, true}); add(Op{K_GSLMAT, i, 0, 0, 0, 0, 0, 0, true}); add(Op{K_EIGEN, i, 0, 0, 0, 0, 0, 0, true}); add(Op{K_TRANSPOSE, i, 0, 0, 0, 0, 0, 0, true});
      add(Op{K_ROTB, i, 0, 0, 0, 0, 0, 0, true}); add(Op{K_ROTB, i, 0, 0, 1, 0, 0, 0, true});
      for (int j = 0; j < NS; j++) {
        add(Op{K_ROTATE, i, j, 0, 0, 0, 0, 0, true});
        for (int f = 0; f < 3; f++) add(Op{K_UTRANS, i, j, 0, f, 0, 0, 0, true});
        add(Op{K_REALIMAG, i, j, 0, 0, 0, 0, 0, true}); add(Op{K_REALIMAG, i, j, 0, 1, 0, 0, 0, true});
        add(Op{K_WROT, i, j, 0, 0, 0, 0, 0, true}); add(Op{K_WROT, i, j, 0, 1, 0, 0, 0, true});
        add(Op{K_SCALARPROD, i, j, 0, 0, 0, 0, 0, true});
        for (int f = 0; f < 4; f++) add(Op{K_COMPOUND, i, j, 0, f, 0, 0, 0, true});
        for (int k = 0; k < NS; k++) {
          add(Op{K_UTRANSEXP, i, j, k, 0, 0, 0, 0, true});
          for (int f = 0; f < 3; f++) add(Op{K_EVOLVE, i, j, k, f, 0, 0, 0, true});
          add(Op{K_COMM, i, j, k, 0, 0, 0, 0, true}); add(Op{K_COMM, i, j, k, 1, 0, 0, 0, true});
        }
      }
    }
  }
}

// ------------------------------------------------------------------ world and observation
struct World {
  alignas(16) unsigned char raw[MAXS][sizeof(SU_vector)];
  alignas(32) double ubuf[MAXB][GUARD + BUFLEN + GUARD];
  bool constructed[MAXS];
  SU_vector& v(int i) { return *reinterpret_cast<SU_vector*>(raw[i]); }
  double* buf(int b) { return ubuf[b] + GUARD; }
  void init() {
    for (int i = 0; i < MAXS; i++) { new (raw[i]) SU_vector(); constructed[i] = true; }
    for (int b = 0; b < MAXB; b++) { for (int k = 0; k < GUARD + BUFLEN + GUARD; k++) ubuf[b][k] = GUARDVAL; for (int k = 0; k < BUFLEN; k++) buf(b)[k] = 1000.0 * (b + 1) + k; }
  }
  void destroy_all() { for (int i = 0; i < MAXS; i++) if (constructed[i]) { v(i).~SU_vector(); constructed[i] = false; } }
  int which_buf(const double* p) const { for (int b = 0; b < MAXB; b++) if (p >= ubuf[b] && p < ubuf[b] + GUARD + BUFLEN + GUARD) return b; return -1; }
  bool guards_ok() const { for (int b = 0; b < MAXB; b++) for (int k = 0; k < GUARD; k++) if (ubuf[b][k] != GUARDVAL || ubuf[b][GUARD + BUFLEN + k] != GUARDVAL) return false; return true; }
};

enum SClass { C_NONE, C_ARENA, C_UBUF, C_BAD };
struct Obs { int dim, size; SClass cls; int block, off, b; const double* ptr; std::vector<double> val; };

static Obs observe(World& w, int i) {
  Obs o; SU_vector& v = w.v(i);
  o.dim = v.Dim(); o.size = v.Size(); o.cls = C_NONE; o.block = -1; o.off = 0; o.b = -1; o.ptr = nullptr;
  if (o.size > 0) {
    o.ptr = &v[0];
    int b = w.which_buf(o.ptr);
    if (b >= 0) { o.cls = (o.ptr == w.buf(b)) ? C_UBUF : C_BAD; o.b = b; }
    else { arena::Block* bl = arena::A().find(o.ptr); if (bl && bl->live && (const char*)(o.ptr + o.size) <= bl->data + bl->size) { o.cls = C_ARENA; o.block = bl->id; o.off = (int)((const char*)o.ptr - bl->data); } else o.cls = C_BAD; }
    if (o.cls != C_BAD) { o.val.resize(o.size); for (int k = 0; k < o.size; k++) o.val[k] = v[k]; }
  }
  return o;
}

// ------------------------------------------------------------------ model
enum MKind { M_EMPTY, M_OWN, M_VIEW };
struct MSlot { int kind, dim, b; std::vector<double> val; };
struct Model { MSlot s[MAXS]; std::vector<double> bufval[MAXB]; long fresh; };

static double fresh(Model& m) { m.fresh++; return 1.0 + (double)m.fresh * 0.0009765625; }
static std::vector<double> slot_value(const Model& m, int i) { const MSlot& s = m.s[i]; if (s.kind == M_VIEW) return std::vector<double>(m.bufval[s.b].begin(), m.bufval[s.b].begin() + s.dim * s.dim); return s.val; }
static bool sameval(const std::vector<double>& a, const std::vector<double>& b) { if (a.size() != b.size()) return false; for (size_t i = 0; i < a.size(); i++) if (!(a[i] == b[i]) && !(std::isnan(a[i]) && std::isnan(b[i]))) return false; return true; }

static std::vector<double> form_value(int f, const std::vector<double>& a, const std::vector<double>& b) {
  std::vector<double> r(a.size());
  for (size_t i = 0; i < a.size(); i++) switch (f) {
    case F_RL_ADD: case F_LR_ADD: case F_RR_ADD: case F_LL_ADD: r[i] = a[i] + b[i]; break;
    case F_RL_SUB: case F_LL_SUB: r[i] = a[i] - b[i]; break;
    case F_R_NEG: case F_L_NEG: r[i] = -a[i]; break;
    case F_R_MULS: r[i] = a[i] * 2; break; case F_S_MULR: r[i] = 2 * a[i]; break;
    case F_RL_EP: case F_LR_EP: case F_RR_EP: r[i] = a[i] * b[i]; break;
  }
  return r;
}

// ------------------------------------------------------------------ one transition
struct Ctx { std::string hist; bool report; bool failed; std::string failsig; };

static void fail(Ctx& c, const std::string& sig, const std::string& detail) {
  if (c.failed) return;
  c.failed = true; c.failsig = sig;
  if (c.report) violation(sig, "{\"replay\":" + jstr(c.hist) + ",\"detail\":" + jstr(detail) + "}");
}

static bool enabled(const Model& m, const Op& o) {
  auto dimof = [&](int i) { return m.s[i].dim; };
  switch (o.kind) {
    case K_EXPRA: case K_EXPRC: if (dimof(o.j) == 0) return false; if (!form_unary(o.f) && dimof(o.k) == 0) return false; return true;
    case K_WRITE: case K_SETBACK: case K_GETCOMP: case K_GSLMAT: case K_EIGEN: case K_ROTB: case K_TRANSPOSE: return dimof(o.i) > 0;
    case K_ROTATE: case K_UTRANS: case K_REALIMAG: return dimof(o.j) > 0;
    case K_WROT: return dimof(o.i) > 0 && dimof(o.j) == dimof(o.i) && m.s[o.j].kind != M_EMPTY && o.i != o.j;
    case K_SCALARPROD: return dimof(o.i) > 0 && dimof(o.j) > 0;
    case K_COMPOUND: return dimof(o.i) > 0 && dimof(o.j) > 0;
    case K_UTRANSEXP: return dimof(o.j) > 0 && dimof(o.k) == dimof(o.j);
    case K_EVOLVE: case K_COMM: return dimof(o.j) > 0 && dimof(o.k) > 0;
    default: return true;
  }
}

struct Expect { bool may_throw, must_throw; int dest; int dest_dim; std::vector<double> dest_val; bool dest_modelled; bool unspec[MAXS]; int adoptable; bool bufwrite[MAXB]; std::vector<double> bufnew[MAXB]; bool any_change_ok; };

// destroy slot i and construct anew; if the constructor throws the harness leaves a default-constructed vector there
template <class F> static void rebuild(World& w, int i, F ctor) {
  w.v(i).~SU_vector(); w.constructed[i] = false;
  try { arena::Counting g; ctor((void*)w.raw[i]); w.constructed[i] = true; } catch (...) { new (w.raw[i]) SU_vector(); w.constructed[i] = true; throw; }
}
#define LIB(stmt) do { arena::Counting g_; stmt; } while (0)

// executes op o on the world; fills what the model expects. Allocation points are numbered only inside LIB()/rebuild().
static void execute(World& w, Model& m, const Op& o, Expect& e, bool& threw, std::string& what) {
  threw = false;
  e.may_throw = e.must_throw = false; e.adoptable = 0; e.dest = -1; e.dest_dim = 0; e.dest_modelled = false; e.any_change_ok = false;
  for (int i = 0; i < MAXS; i++) e.unspec[i] = false;
  for (int b = 0; b < MAXB; b++) e.bufwrite[b] = false;
  auto V = [&](int i) -> SU_vector& { return w.v(i); };
  int di = m.s[o.i].dim;
  try {
    switch (o.kind) {
      case K_RESET: e.dest = o.i; e.dest_dim = 0; e.dest_modelled = true; rebuild(w, o.i, [](void* p) { new (p) SU_vector(); }); break;
      case K_SIZED: e.dest = o.i; e.dest_dim = o.d; e.dest_val.assign(o.d * o.d, 0.0); e.dest_modelled = true; rebuild(w, o.i, [&](void* p) { new (p) SU_vector((unsigned)o.d); }); break;
      case K_EXT: e.dest = o.i; e.dest_dim = o.d; e.dest_val.assign(m.bufval[o.b].begin(), m.bufval[o.b].begin() + o.d * o.d); e.dest_modelled = true; e.adoptable |= 1 << o.b;
        rebuild(w, o.i, [&](void* p) { new (p) SU_vector((unsigned)o.d, w.buf(o.b)); }); break;
      case K_COPYC: e.dest = o.i; e.dest_dim = m.s[o.j].dim; e.dest_val = slot_value(m, o.j); e.dest_modelled = true; rebuild(w, o.i, [&](void* p) { new (p) SU_vector(V(o.j)); }); break;
      case K_MOVEC: e.dest = o.i; e.dest_dim = m.s[o.j].dim; e.dest_val = slot_value(m, o.j); e.dest_modelled = true; e.unspec[o.j] = true; if (m.s[o.j].kind == M_VIEW) e.adoptable |= 1 << m.s[o.j].b;
        rebuild(w, o.i, [&](void* p) { new (p) SU_vector(std::move(V(o.j))); }); break;
      case K_COPYA: e.dest = o.i; e.dest_dim = m.s[o.j].dim; e.dest_val = slot_value(m, o.j); e.dest_modelled = true;
        if (m.s[o.i].kind == M_VIEW && o.i != o.j && m.s[o.j].dim != di) e.must_throw = true;
        LIB(V(o.i) = V(o.j)); break;
      case K_MOVEA: e.dest = o.i; e.dest_dim = m.s[o.j].dim; e.dest_val = slot_value(m, o.j); e.dest_modelled = true;
        if (o.i != o.j) { e.unspec[o.j] = true; if (m.s[o.j].kind == M_VIEW) e.adoptable |= 1 << m.s[o.j].b; }
        if (m.s[o.i].kind == M_VIEW && o.i != o.j && m.s[o.j].dim != di) e.must_throw = true;
        LIB(V(o.i) = std::move(V(o.j))); break;
      case K_EXPRA: case K_EXPRC: {
        int dj = m.s[o.j].dim, dk = m.s[o.k].dim; bool un = form_unary(o.f);
        e.dest = o.i; e.dest_dim = dj; e.dest_modelled = true;
        if (!un && dj != dk) e.must_throw = true;
        else { e.dest_val = form_value(o.f, slot_value(m, o.j), un ? slot_value(m, o.j) : slot_value(m, o.k)); if (o.kind == K_EXPRA && m.s[o.i].kind == M_VIEW && dj != di) e.must_throw = true; }
        if (form_rv_j(o.f) && o.j != o.i) e.unspec[o.j] = true;
        if (form_rv_k(o.f) && o.k != o.i) e.unspec[o.k] = true;
        if (form_rv_j(o.f) && m.s[o.j].kind == M_VIEW) e.adoptable |= 1 << m.s[o.j].b;
        if (form_rv_k(o.f) && m.s[o.k].kind == M_VIEW) e.adoptable |= 1 << m.s[o.k].b;
        SU_vector &J = V(o.j), &K = V(o.k);
#define VF_FORMS(ASSIGN) switch (o.f) { \
          case F_RL_ADD: ASSIGN(std::move(J) + K); break; case F_LR_ADD: ASSIGN(J + std::move(K)); break; case F_RR_ADD: ASSIGN(std::move(J) + std::move(K)); break; \
          case F_RL_SUB: ASSIGN(std::move(J) - K); break; case F_R_NEG: ASSIGN(-std::move(J)); break; case F_R_MULS: ASSIGN(std::move(J) * 2.0); break; case F_S_MULR: ASSIGN(2.0 * std::move(J)); break; \
          case F_RL_EP: ASSIGN(ElementwiseProduct(std::move(J), K)); break; case F_LR_EP: ASSIGN(ElementwiseProduct(J, std::move(K))); break; case F_RR_EP: ASSIGN(ElementwiseProduct(std::move(J), std::move(K))); break; \
          case F_LL_ADD: ASSIGN(J + K); break; case F_LL_SUB: ASSIGN(J - K); break; case F_L_NEG: ASSIGN(-J); break; }
#define VF_ASG(X) LIB(V(o.i) = X)
#define VF_CTOR(X) rebuild(w, o.i, [&](void* p) { new (p) SU_vector(X); })
        if (o.kind == K_EXPRA) { VF_FORMS(VF_ASG) } else { VF_FORMS(VF_CTOR) }
      } break;
      case K_SETBACK: e.dest = o.i; e.dest_dim = di; e.dest_val.assign(m.bufval[o.b].begin(), m.bufval[o.b].begin() + di * di); e.dest_modelled = true; e.adoptable |= 1 << o.b; LIB(V(o.i).SetBackingStore(w.buf(o.b))); break;
      case K_WRITE: { e.dest = o.i; e.dest_dim = di; e.dest_val.resize(di * di); for (int k = 0; k < di * di; k++) { e.dest_val[k] = fresh(m); V(o.i)[k] = e.dest_val[k]; } e.dest_modelled = true; } break;
      case K_WRITEBUF: { e.bufwrite[o.b] = true; e.bufnew[o.b].resize(BUFLEN); for (int k = 0; k < BUFLEN; k++) { e.bufnew[o.b][k] = fresh(m); w.buf(o.b)[k] = e.bufnew[o.b][k]; } } break;
      case K_CMP: {
        bool got = false; LIB(got = (V(o.i) == V(o.j)));
        std::vector<double> a = slot_value(m, o.i), b = slot_value(m, o.j);
        if (m.s[o.i].dim > 0 && m.s[o.j].dim > 0) { bool want = m.s[o.i].dim == m.s[o.j].dim && a.size() == b.size(); for (size_t q = 0; want && q < a.size(); q++) if (!(a[q] == b[q])) want = false; /* IEEE equality: a NaN component (wide alphabet) compares unequal */ if (got != want) { what = "operator== returned " + std::to_string(got); e.dest = -2; } }
      } break;
      case K_FILL: { std::vector<SU_vector> t; t.reserve(o.n); for (int q = 0; q < o.n; q++) t.emplace_back((unsigned)o.d); } break;
      // ---------------- wide alphabet: results adopted, only storage / ledger / sanitizer oracles ----------------
      case K_LIST: { e.dest = o.i; e.any_change_ok = true; e.may_throw = true; std::vector<double> l(o.n); for (auto& x : l) x = fresh(m); rebuild(w, o.i, [&](void* p) { new (p) SU_vector(l); }); } break;
      case K_MATRIX: { e.dest = o.i; e.any_change_ok = true; e.may_throw = true; GslMat g(o.d, o.n); for (int r = 0; r < o.d; r++) for (int c = 0; c < o.n; c++) gsl_matrix_complex_set(g.g, r, c, gsl_complex_rect(r == c ? 1.0 + r : 0.25, r < c ? 0.5 : (r > c ? -0.5 : 0))); rebuild(w, o.i, [&](void* p) { new (p) SU_vector(g.g); }); } break;
      case K_BADSIZED: e.dest = o.i; e.any_change_ok = true; e.may_throw = true; rebuild(w, o.i, [&](void* p) { new (p) SU_vector((unsigned)o.d); }); break;
      case K_BADEXT: e.dest = o.i; e.any_change_ok = true; e.may_throw = true; e.adoptable |= 1 << o.b; rebuild(w, o.i, [&](void* p) { new (p) SU_vector((unsigned)o.d, w.buf(o.b)); }); break;
      case K_FACTORY: { e.dest = o.i; e.any_change_ok = true; e.may_throw = true;
        rebuild(w, o.i, [&](void* p) { switch (o.f) { case 0: new (p) SU_vector(SU_vector::Projector(o.d, o.n)); break; case 1: new (p) SU_vector(SU_vector::Identity(o.d)); break; case 2: new (p) SU_vector(SU_vector::PosProjector(o.d, o.n)); break;
          case 3: new (p) SU_vector(SU_vector::NegProjector(o.d, o.n)); break; case 4: new (p) SU_vector(SU_vector::Generator(o.d, o.n)); break; default: new (p) SU_vector(SU_vector::make_aligned(o.d, o.n != 0)); if (o.n == 0) { SU_vector& nv = *reinterpret_cast<SU_vector*>(p); nv.SetAllComponents(0.5); } } }); } break;
      case K_GETCOMP: { size_t n = 0; LIB(n = V(o.i).GetComponents().size()); if ((int)n != di * di) { what = "GetComponents size"; e.dest = -2; } } break;
      case K_GSLMAT: { size_t n = 0; LIB(n = V(o.i).GetGSLMatrix()->size1); if ((int)n != di) { what = "GetGSLMatrix size"; e.dest = -2; } } break;
      case K_EIGEN: { LIB(V(o.i).GetEigenSystem(true)); } break;
      case K_TRANSPOSE: e.dest = o.i; e.any_change_ok = true; LIB(V(o.i).Transpose()); break;
      case K_ROTB: { e.dest = o.i; e.any_change_ok = true; squids::Const par; par.SetMixingAngle(0, 1, 0.4); par.SetMixingAngle(0, 2, -0.3); par.SetMixingAngle(1, 2, 0.9); par.SetPhase(0, 2, 0.5); if (o.f) LIB(V(o.i).RotateToB1(par)); else LIB(V(o.i).RotateToB0(par)); } break;
      case K_ROTATE: e.dest = o.i; e.any_change_ok = true; e.may_throw = true; LIB(V(o.i) = V(o.j).Rotate(0, 1, 0.3, 0.2)); break;
      case K_UTRANS: { e.dest = o.i; e.any_change_ok = true; e.may_throw = true; int dj = m.s[o.j].dim; int du = (o.f == 2) ? (dj == 2 ? 3 : 2) : dj; GslMat U(ref::eye(du)); gsl_matrix_complex_set(U.g, 0, 1, gsl_complex_rect(0, 1)); gsl_matrix_complex_set(U.g, 0, 0, gsl_complex_rect(0, 0));
        if (o.f == 0) LIB(V(o.i) = V(o.j).UTransform(U.g)); else if (o.f == 1) LIB(V(o.i) = V(o.j).UDaggerTransform(U.g)); else LIB(V(o.i) = V(o.j).Rotate(U.g)); } break;
      case K_UTRANSEXP: e.dest = o.i; e.any_change_ok = true; e.may_throw = true; LIB(V(o.i) = V(o.j).UTransform(V(o.k), gsl_complex_rect(0, 0.7))); break;
      case K_WROT: { e.dest = o.i; e.any_change_ok = true; e.may_throw = true; int d = di; squids::Const par; par.SetMixingAngle(0, 1, 0.4); if (o.f == 0) LIB(V(o.i).WeightedRotation(par, V(o.j), par)); else { auto U = par.GetTransformationMatrix(d); LIB(V(o.i).WeightedRotation(U.get(), V(o.j), U.get())); } } break;
      case K_EVOLVE: { e.dest = o.i; e.any_change_ok = true; e.may_throw = true;
        if (o.f == 0) LIB(V(o.i) = V(o.j).Evolve(V(o.k), 0.7)); else if (o.f == 1) LIB(V(o.i) += V(o.j).Evolve(V(o.k), 0.7));
        else { int dk = m.s[o.k].dim; std::vector<double> eb(dk * (dk - 1) + 2); LIB(V(o.k).PrepareEvolve(eb.data(), 0.3)); if (m.s[o.j].dim != dk) throw std::runtime_error("harness: buffer of another dimension not applied"); LIB(V(o.i) = V(o.j).Evolve(eb.data())); } } break;
      case K_COMM: e.dest = o.i; e.any_change_ok = true; e.may_throw = true; if (o.f) LIB(V(o.i) = squids::ACommutator(V(o.j), V(o.k))); else LIB(V(o.i) = squids::iCommutator(V(o.j), V(o.k))); break;
      case K_COMPOUND: e.dest = o.i; e.any_change_ok = true; e.may_throw = true; if (o.f == 0) LIB(V(o.i) += V(o.j)); else if (o.f == 1) LIB(V(o.i) -= V(o.j)); else if (o.f == 2) LIB(V(o.i) += 2.0 * V(o.j)); else LIB(V(o.i) -= squids::iCommutator(V(o.j), V(o.j))); break;
      case K_SCALARPROD: { e.may_throw = true; volatile double x = 0; LIB(x = V(o.i) * V(o.j)); (void)x; } break;
      case K_REALIMAG: e.dest = o.i; e.any_change_ok = true; e.may_throw = true; if (o.f) LIB(V(o.i) = V(o.j).Imag()); else LIB(V(o.i) = V(o.j).Real()); break;
    }
  } catch (const std::bad_alloc&) { threw = true; what = "std::bad_alloc"; }
  catch (const std::exception& ex) { threw = true; what = ex.what(); }
}

struct Snapshot { Obs o[MAXS]; std::vector<double> buf[MAXB]; };
static Snapshot snap(World& w) { Snapshot s; for (int i = 0; i < NS; i++) s.o[i] = observe(w, i); for (int b = 0; b < NB; b++) s.buf[b].assign(w.buf(b), w.buf(b) + BUFLEN); return s; }

static std::string obs_str(const Obs& o) { return fmt("dim=%d size=%d cls=%d block=%d off=%d buf=%d", o.dim, o.size, (int)o.cls, o.block, o.off, o.b); }

// validates the world against the expectation and updates the model from the observation
static void validate(World& w, Model& m, const Op& o, const Expect& e, bool threw, const std::string& what, const Snapshot& pre, Ctx& c, bool is_fault) {
  std::string on = opname(o);
  if (e.dest == -2) { fail(c, "operator==:wrong-result", on + ": " + what); return; }
  if (!is_fault) {
    if (threw && what == "std::bad_alloc") { fail(c, "unexpected-bad_alloc", on); return; }
    if (threw && !(e.may_throw || e.must_throw)) { fail(c, "unexpected-exception:" + std::string(o.extra ? "wide" : "core"), on + " threw: " + what); return; }
    if (!threw && e.must_throw) { fail(c, "missing-exception:" + std::string(o.kind == K_EXPRA || o.kind == K_EXPRC ? "expression" : "assignment"), on + " did not throw"); return; }
  }
  Snapshot post = snap(w);
  arena::Arena& A = arena::A();
  if (A.errors()) { fail(c, "ledger:" + A.first_error.substr(0, 60), on); return; }
  if (!w.guards_ok()) { fail(c, "user-buffer:guard-zone-overwritten", on); return; }
  // storage validity of every slot
  std::map<int, int> owner;
  for (int i = 0; i < NS; i++) {
    const Obs& p = post.o[i];
    if (p.cls == C_BAD) { fail(c, "storage:slot-points-to-dead-or-foreign-memory", on + fmt(" slot %d ", i) + obs_str(p)); return; }
    if (p.cls == C_ARENA) { if (owner.count(p.block)) { fail(c, "storage:two-vectors-on-one-block", on + fmt(" slots %d and %d share block %d", owner[p.block], i, p.block)); return; } owner[p.block] = i; }
    if (p.size != p.dim * p.dim) { fail(c, "storage:size-not-dim-squared", on + fmt(" slot %d ", i) + obs_str(p)); return; }
  }
  bool unchanged_required = threw;  // an exception leaves everything as it was (C09/C14 say so for the target, C16 for everything but the target)
  for (int i = 0; i < NS; i++) {
    const Obs &p = post.o[i], &q = pre.o[i];
    bool is_dest = (i == e.dest);
    bool frame = unchanged_required ? !(is_fault && is_dest) : (!is_dest && !e.unspec[i]);
    bool ctor_like = o.kind == K_RESET || o.kind == K_SIZED || o.kind == K_EXT || o.kind == K_COPYC || o.kind == K_MOVEC || o.kind == K_EXPRC || o.kind == K_LIST || o.kind == K_MATRIX || o.kind == K_BADSIZED || o.kind == K_BADEXT || o.kind == K_FACTORY;
    if (threw && ctor_like && is_dest) frame = false;  // a constructor that threw leaves no object; the harness put a default one there
    if (frame) {
      // a view whose buffer legitimately changed is compared through the buffer below
      bool same = p.dim == q.dim && p.cls == q.cls && p.ptr == q.ptr;
      if (same && p.cls != C_UBUF) same = sameval(p.val, q.val);
      if (!same) { fail(c, std::string(threw ? "exception-modified-operand" : "frame:other-vector-changed") + (is_fault ? ":after-bad_alloc" : ""), on + fmt(" slot %d before{", i) + obs_str(q) + "} after{" + obs_str(p) + "}"); return; }
    }
  }
  if (!threw) {
    if (e.dest >= 0 && e.dest_modelled) {
      const Obs& p = post.o[e.dest]; const MSlot& ms = m.s[e.dest];
      if (p.dim != e.dest_dim) { fail(c, "value:destination-dimension", on + fmt(" expected dim %d got %d", e.dest_dim, p.dim)); return; }
      if (p.dim > 0 && !sameval(p.val, e.dest_val)) { fail(c, "value:destination-holds-wrong-components", on + " got " + jarr(p.val) + " want " + jarr(e.dest_val)); return; }
      bool keep_view = ms.kind == M_VIEW && (o.kind == K_COPYA || o.kind == K_MOVEA || o.kind == K_EXPRA || o.kind == K_WRITE);
      if (keep_view && !(p.cls == C_UBUF && p.b == ms.b)) { fail(c, "external-storage:silently-replaced", on + fmt(" slot %d was a view of buf%d, now ", e.dest, ms.b) + obs_str(p)); return; }
      if (!keep_view && p.cls == C_UBUF && !(e.adoptable >> p.b & 1) && !(ms.kind == M_VIEW && ms.b == p.b && (o.kind == K_SETBACK))) { fail(c, "external-storage:bound-without-derivation", on + fmt(" slot %d now views buf%d", e.dest, p.b)); return; }
    }
    for (int i = 0; i < NS; i++) if ((e.unspec[i] && i != e.dest) || (i == e.dest && e.any_change_ok)) {
      const Obs& p = post.o[i]; const MSlot& ms = m.s[i];
      if (p.cls == C_UBUF && !(ms.kind == M_VIEW && ms.b == p.b) && !(e.adoptable >> p.b & 1)) { fail(c, "external-storage:bound-without-derivation", on + fmt(" slot %d now views buf%d", i, p.b)); return; }
    }
  }
  // user buffers: expected content
  for (int b = 0; b < NB; b++) {
    std::vector<double> want = pre.buf[b];
    if (!threw) {
      if (e.bufwrite[b]) want = e.bufnew[b];
      for (int i = 0; i < NS; i++) { const Obs& p = post.o[i]; bool writer = (i == e.dest) && (e.dest_modelled || e.any_change_ok); if (writer && p.cls == C_UBUF && p.b == b) for (int k = 0; k < p.size; k++) want[k] = p.val[k]; }
    }
    bool same = true; for (int k = 0; k < BUFLEN; k++) if (!(post.buf[b][k] == want[k]) && !(std::isnan(post.buf[b][k]) && std::isnan(want[k]))) same = false;
    if (!same) { fail(c, threw ? "exception-modified-user-buffer" : "user-buffer:unexpected-write", on + fmt(" buf%d", b)); return; }
  }
  // model update from the observation
  for (int i = 0; i < NS; i++) { const Obs& p = post.o[i]; MSlot& ms = m.s[i]; ms.dim = p.dim; if (p.cls == C_UBUF) { ms.kind = M_VIEW; ms.b = p.b; ms.val.clear(); } else if (p.cls == C_ARENA) { ms.kind = M_OWN; ms.val = p.val; ms.b = -1; } else { ms.kind = M_EMPTY; ms.val.clear(); ms.b = -1; } }
  for (int b = 0; b < NB; b++) m.bufval[b] = post.buf[b];
}

// teardown probe: destroy everything, empty the cache, the ledger must be clean
static void teardown(World& w, Ctx& c, const std::string& when) {
  w.destroy_all();
  SU_vector::clear_mem_cache();
  arena::Arena& A = arena::A();
  if (A.errors()) { fail(c, "ledger:" + A.first_error.substr(0, 60), "at teardown " + when); return; }
  long live = A.live_blocks();
  if (live && MODE == "c08") { c.failed = true; c.failsig = "(leak: not a C08 matter, reported by the C15 run)"; return; }  // stop expanding, restart the worker, no C08 violation
  if (live) { std::string sizes; for (auto& b : A.blocks) if (b.live) sizes += std::to_string(b.size / 8) + " "; fail(c, "ledger:leak-at-quiescence", fmt("%ld block(s) still live after destroying every vector and clear_mem_cache(); lengths(doubles): ", live) + sizes + when); }
}

// ------------------------------------------------------------------ canonical key
static std::string key_for(World& w, const Model& m, const int* sp, const int* bp) {
  // sp: slot permutation (position -> slot), bp: buffer renaming (buffer -> canonical id)
  std::string k; std::map<int, int> rename; arena::Arena& A = arena::A();
  std::set<int> referenced;
  for (int pos = 0; pos < NS; pos++) {
    int i = sp[pos]; Obs o = observe(w, i);
    k += fmt("|%d:%d", m.s[i].kind, o.dim);
    if (o.cls == C_ARENA) { if (!rename.count(o.block)) { int id = (int)rename.size(); rename[o.block] = id; } const arena::Block& b = A.blocks[o.block]; k += fmt("B%d+%d,l%zu,a%d", rename[o.block], o.off, b.size, (int)(((uintptr_t)b.data) % 32)); referenced.insert(o.block); }
    else if (m.s[i].kind == M_VIEW) k += fmt("U%d", bp[m.s[i].b]);
  }
  std::vector<std::string> cached;
  for (auto& b : A.blocks) if (b.live && !referenced.count(b.id)) cached.push_back(fmt("c%zu,a%d", b.size, (int)(((uintptr_t)b.data) % 32)));
  std::sort(cached.begin(), cached.end());
  for (auto& s : cached) k += ";" + s;
  return k;
}
// Exact content of the library's per-dimension caches, observed through the public interface: allocate vectors of each
// dimension until a fresh block appears; every block handed out before that was cached under that dimension. This is
// destructive, so it is the last thing done with a replayed state (the teardown probe follows). It makes the key
// independent of the assumption "a block is cached under the dimension its length suggests".
static std::string probe_caches(std::string* err) {
  arena::Arena& A = arena::A(); std::string k; size_t nb0 = A.blocks.size();
  std::vector<int> order(A.blocks.size(), -1);
  for (int d = 2; d <= 6; d++) {
    std::vector<SU_vector> got; got.reserve(40); std::string part;
    for (int q = 0; q < 36; q++) {
      got.emplace_back((unsigned)d);
      arena::Block* b = A.find(&got.back()[0]);
      if (!b) { if (err) *err = fmt("allocation of dimension %d returned storage outside every block", d); break; }
      if ((size_t)b->id >= nb0) break;   // fresh block: the cache of this dimension is exhausted
      if ((const char*)(&got.back()[0] + d * d) > b->data + b->size) { if (err) *err = fmt("cache of dimension %d handed out a block of %zu bytes", d, b->size); }
      part += fmt("(%zu,%d,%d)", b->size, (int)(((uintptr_t)b->data) % 32), (int)((const char*)&got.back()[0] - b->data));
    }
    if (!part.empty()) k += fmt(";d%d:", d) + part;
  }
  return k;
}

static std::string canonical_key(World& w, const Model& m) {
  std::string best; int sp[MAXS] = {0, 1, 2};
  std::vector<int> perm; for (int i = 0; i < NS; i++) perm.push_back(i);
  do {
    for (int i = 0; i < NS; i++) sp[i] = perm[i];
    for (int sw = 0; sw < (NB == 2 ? 2 : 1); sw++) { int bp[MAXB] = {sw ? 1 : 0, sw ? 0 : 1}; std::string k = key_for(w, m, sp, bp); if (best.empty() || k < best) best = k; }
  } while (std::next_permutation(perm.begin(), perm.end()));
  return best;
}

// ------------------------------------------------------------------ replay of one history (+ optional fault injection on the last op)
struct RunResult { bool member; bool failed; std::string key; long allocs_last; };

static std::string hist_string(const std::vector<int>& h, int am) { std::string s = MODE + ":" + std::to_string(NS) + ":" + std::to_string(NB) + ":"; for (size_t i = 0; i < DIMS.size(); i++) s += (i ? "." : "") + std::to_string(DIMS[i]); s += ":" + std::to_string(am) + ":"; for (size_t i = 0; i < h.size(); i++) { if (i) s += ","; s += std::to_string(h[i]); } return s; }
static std::string hist_names(const std::vector<int>& h) { std::string s; for (size_t i = 0; i < h.size(); i++) { if (i) s += " ; "; s += opname(OPS[h[i]]); } return s; }

static World* g_world;  // static storage: a History replay must not depend on stack garbage

static RunResult run_history(const std::vector<int>& h, int align_mode, bool report, long fail_k = -1) {
  RunResult r; r.member = true; r.failed = false; r.allocs_last = 0;
  static World world; g_world = &world;
  arena::Arena& A = arena::A();
  A.active = false;
  SU_vector::clear_mem_cache();
  A.reset(); A.align_mode = align_mode; A.count_scalar = (MODE == "c16"); A.counting = false;
  A.active = true;
  World& w = world; w.init();
  Model m; m.fresh = 0;
  for (int i = 0; i < MAXS; i++) { m.s[i].kind = M_EMPTY; m.s[i].dim = 0; m.s[i].b = -1; }
  for (int b = 0; b < MAXB; b++) m.bufval[b].assign(w.buf(b), w.buf(b) + BUFLEN);
  Ctx c; c.report = report; c.failed = false;
  c.hist = hist_string(h, align_mode) + (fail_k >= 0 ? "!" + std::to_string(fail_k) : "");
  for (size_t s = 0; s < h.size(); s++) {
    const Op& o = OPS[h[s]];
    bool last = s + 1 == h.size();
    if (!enabled(m, o)) { r.member = false; break; }
    Snapshot pre = snap(w);
    Expect e; bool threw; std::string what;
    long a0 = A.alloc_count;
    if (last && fail_k >= 0) A.fail_at = a0 + fail_k;
    execute(w, m, o, e, threw, what);
    A.fail_at = -1;
    if (last) r.allocs_last = A.alloc_count - a0;
    bool is_fault = last && fail_k >= 0;
    if (is_fault && !A.fault_fired) { r.member = false; break; }   // allocation k did not occur in this run (thread-local scratch of the library already warm): nothing was injected
    if (is_fault && !(threw && what == "std::bad_alloc")) {
      if (!threw) fail(c, "bad_alloc:swallowed", opname(o) + fmt(" completed although allocation %ld failed", fail_k));
      else if (!(e.may_throw || e.must_throw)) fail(c, "bad_alloc:replaced-by-other-exception", opname(o) + " threw " + what);
      else { r.member = false; }   // the operation throws for its own reasons before reaching that allocation
      break;
    }
    validate(w, m, o, e, threw, what, pre, c, is_fault);
    if (c.failed) break;
    if (is_fault) {
      // after the fault: cache must not hand out a block some vector still references; every vector can be reassigned and destroyed
      { std::vector<SU_vector> probe; std::set<const double*> held; for (int i = 0; i < NS; i++) { Obs ob = observe(w, i); if (ob.cls == C_ARENA) held.insert(ob.ptr); }
        for (int d : DIMS) for (int q = 0; q < 4; q++) { probe.emplace_back((unsigned)d); if (held.count(&probe.back()[0])) fail(c, "bad_alloc:block-both-cached-and-owned", opname(o) + fmt(" k=%ld", fail_k)); } }
      if (c.failed) break;
      // the operation that failed is attempted again with memory available: whatever scratch state the failed attempt left
      // behind (thread-local work space of the library included) must not make the retry fail, crash or corrupt the heap
      if (!c.failed && enabled(m, o)) {
        Expect e2; bool threw2 = false; std::string what2;
        execute(w, m, o, e2, threw2, what2);
        if (threw2 && what2 == "std::bad_alloc") fail(c, "bad_alloc:retry-with-memory-available-fails", opname(o) + fmt(" k=%ld", fail_k));
        else if (A.errors()) fail(c, "ledger:" + A.first_error.substr(0, 60), "retrying " + opname(o) + " after bad_alloc");
        else if (!w.guards_ok()) fail(c, "user-buffer:guard-zone-overwritten", "retrying " + opname(o) + " after bad_alloc");
        else for (int i = 0; i < NS; i++) if (observe(w, i).cls == C_BAD) { fail(c, "storage:slot-points-to-dead-or-foreign-memory", "retrying " + opname(o) + " after bad_alloc"); break; }
      }
      for (int i = 0; i < NS && !c.failed; i++) {
        try { if (m.s[i].kind == M_VIEW) { for (int k = 0; k < m.s[i].dim * m.s[i].dim; k++) w.v(i)[k] = 3.5; } else { SU_vector nv((unsigned)DIMS[0]); nv[0] = 42; w.v(i) = nv; if (!(w.v(i).Dim() == (unsigned)DIMS[0] && w.v(i)[0] == 42)) fail(c, "bad_alloc:vector-not-reassignable", opname(o) + fmt(" slot %d", i)); } }
        catch (const std::exception& ex) { fail(c, "bad_alloc:vector-not-reassignable", opname(o) + fmt(" slot %d threw ", i) + ex.what()); }
      }
      if (A.errors()) fail(c, "ledger:" + A.first_error.substr(0, 60), "reassigning after bad_alloc in " + opname(o));
    }
  }
  if (r.member && !c.failed) {
    r.key = canonical_key(w, m);
    std::string perr; r.key += probe_caches(&perr);
    if (!perr.empty()) fail(c, "cache:undersized-or-foreign-block-handed-out", perr + " after " + (h.empty() ? std::string("(root)") : opname(OPS[h.back()])));
    if (A.errors()) fail(c, "ledger:" + A.first_error.substr(0, 60), "while probing the caches");
    // Behavioural probe of what each vector believes about its own storage (destructive, the state is discarded next):
    // does a size-changing assignment throw? On a consistent object this is determined by the storage class already in
    // the key; an object whose belief differs from where its components live gets a key of its own and is expanded.
    std::vector<std::string> beliefs;
    for (int i = 0; i < NS; i++) if (m.s[i].dim > 0) {
      bool thr = false; int od = (m.s[i].dim == DIMS[0]) ? DIMS[1 % DIMS.size()] : DIMS[0]; if (od == m.s[i].dim) od = m.s[i].dim == 2 ? 3 : 2;
      try { SU_vector t((unsigned)od); w.v(i) = t; } catch (const std::exception&) { thr = true; }
      beliefs.push_back(fmt("%d.%d.%d", m.s[i].kind, m.s[i].dim, (int)thr));
    }
    std::sort(beliefs.begin(), beliefs.end());
    r.key += "|bel"; for (auto& b : beliefs) r.key += ":" + b;
  }
  if (r.member && !c.failed) teardown(w, c, "after " + (h.empty() ? std::string("(root)") : opname(OPS[h.back()])));
  else { w.destroy_all(); }
  A.active = false;
  r.failed = c.failed;
  return r;
}

// ------------------------------------------------------------------ search
struct Shared { volatile long parent, op, k, done; };

int main(int argc, char** argv) {
  Args ar = parse(argc, argv); quiet_gsl(); install_crash_reporter();
  MODE = ar.get("mode2", ar.mode.empty() ? "c08" : ar.mode);
  NS = (int)ar.geti("slots", 3); NB = (int)ar.geti("bufs", 2);
  { std::string ds = ar.get("dims", "2.3"); DIMS.clear(); for (size_t p = 0; p < ds.size();) { DIMS.push_back(atoi(ds.c_str() + p)); size_t q = ds.find('.', p); if (q == std::string::npos) break; p = q + 1; } }
  int maxdepth = (int)ar.geti("depth", 1000);
  int workers = (int)ar.geti("workers", 16);
  double deadline = (double)ar.geti("deadline", 3000);
  std::vector<int> align_modes; { std::string am = ar.get("align", "0.1"); for (size_t p = 0; p < am.size();) { align_modes.push_back(atoi(am.c_str() + p)); size_t q = am.find('.', p); if (q == std::string::npos) break; p = q + 1; } }
  bool prefill = ar.geti("prefill", 1) != 0;
  if (!ar.replay.empty()) {
    // MODE:NS:NB:dims:align:ops[!k]
    std::vector<std::string> parts; { std::string s = ar.replay; size_t p = 0; for (int q = 0; q < 5; q++) { size_t e = s.find(':', p); parts.push_back(s.substr(p, e - p)); p = e + 1; } parts.push_back(s.substr(p)); }
    MODE = parts[0]; NS = atoi(parts[1].c_str()); NB = atoi(parts[2].c_str()); DIMS.clear(); for (size_t p = 0; p < parts[3].size();) { DIMS.push_back(atoi(parts[3].c_str() + p)); size_t q = parts[3].find('.', p); if (q == std::string::npos) break; p = q + 1; }
    int am = atoi(parts[4].c_str()); long fk = -1; std::string ops = parts[5]; size_t ex = ops.find('!'); if (ex != std::string::npos) { fk = atol(ops.c_str() + ex + 1); ops = ops.substr(0, ex); }
    build_ops();
    // FILL pseudo ops are appended to the catalogue
    for (int d : DIMS) for (int n : {31, 32}) OPS.push_back(Op{K_FILL, 0, 0, 0, 0, d, 0, n, false});
    std::vector<int> h; for (size_t p = 0; p < ops.size();) { h.push_back(atoi(ops.c_str() + p)); size_t q = ops.find(',', p); if (q == std::string::npos) break; p = q + 1; }
    printf("replaying: %s\n", hist_names(h).c_str());
    set_case(ar.replay);
    for (int rep = 0; rep < 2; rep++) { RunResult r = run_history(h, am, rep == 0, fk); printf("  run %d: member=%d failed=%d key=%s\n", rep, r.member, r.failed, r.key.c_str()); }
    count("evaluations"); count("states"); count("transitions"); finish(); return 0;
  }
  build_ops();
  size_t nreal = OPS.size();
  std::vector<int> fillops;
  for (int d : DIMS) for (int n : {31, 32}) { fillops.push_back((int)OPS.size()); OPS.push_back(Op{K_FILL, 0, 0, 0, 0, d, 0, n, false}); }
  info("alphabet:" + MODE + fmt(":slots=%d", NS), fmt("%zu operations, %d slots, %d buffers, mode %s", nreal, NS, NB, MODE.c_str()));
  auto t0 = std::chrono::steady_clock::now();
  std::string tmpdir = ar.get("tmp", "/verif/build/hist-tmp") + "-" + std::to_string(getpid());
  if (system(("mkdir -p " + tmpdir).c_str())) return 4;
  Shared* sh = (Shared*)mmap(nullptr, sizeof(Shared) * 64, PROT_READ | PROT_WRITE, MAP_SHARED | MAP_ANONYMOUS, -1, 0);
  long total_states = 0, total_trans = 0, total_fault_runs = 0; int depth_reached = 0; bool closed = true;
  std::map<std::string, long> agg_counts; std::map<std::string, int> vio_seen;
  for (int am : align_modes) {
    std::unordered_set<std::string> seen;
    std::vector<std::vector<int>> frontier;
    // roots: the empty pool, and pools with the cache of each dimension pre-filled to 31 and 32 entries
    std::vector<std::vector<int>> roots; roots.push_back({});
    if (prefill) for (int f : fillops) roots.push_back({f});
    for (auto& r0 : roots) { set_case(hist_string(r0, am)); RunResult r = run_history(r0, am, true); if (r.failed) continue; if (seen.insert(r.key).second) { frontier.push_back(r0); total_states++; } }
    int depth = 0;
    while (!frontier.empty() && depth < maxdepth) {
      depth++;
      if (std::chrono::duration<double>(std::chrono::steady_clock::now() - t0).count() > deadline) { closed = false; not_exhaustive(); info("deadline", fmt("hit before level %d (align mode %d)", depth, am)); break; }
      // fork workers over the frontier
      int W = std::min<int>(workers, (int)frontier.size());
      std::vector<pid_t> pids(W); std::vector<long> resume(W, 0);
      auto spawn = [&](int wi) {
        sh[wi].parent = -1; sh[wi].op = -1; sh[wi].k = -1; sh[wi].done = 0;
        fflush(stdout);
        pid_t pid = fork();
        if (pid == 0) {
          std::string base = tmpdir + "/w" + std::to_string(wi);
          int fo = open((base + ".out").c_str(), O_WRONLY | O_CREAT | O_APPEND, 0644), fe = open((base + ".err").c_str(), O_WRONLY | O_CREAT | O_APPEND, 0644);
          dup2(fo, 1); dup2(fe, 2);
          st() = State();
          int recfd = open((base + ".rec").c_str(), O_WRONLY | O_CREAT | O_APPEND, 0644);   // one write() per record: a worker that dies never leaves half a line
          std::unordered_set<std::string> local;
          long idx = 0;
          for (size_t fi = wi; fi < frontier.size(); fi += W) {
            for (size_t oi = 0; oi < nreal; oi++, idx++) {
              if (idx < resume[wi]) continue;
              sh[wi].parent = (long)fi; sh[wi].op = (long)oi; sh[wi].k = -1; sh[wi].done = idx;
              std::vector<int> h = frontier[fi]; h.push_back((int)oi);
              set_case(hist_string(h, am));
              RunResult r = run_history(h, am, true);
              if (!r.member) continue;
              count("transitions"); count("executions");
              if (r.failed) {
                // a block cached under dimension 0 survives clear_mem_cache() and would leak into the next replay: restart this worker then
                bool contaminated = false; for (auto& b : arena::A().blocks) if (b.live && b.size <= 3 * sizeof(double)) contaminated = true;
                if (contaminated) { fflush(stdout); close(recfd); finish(); _exit(77); }
                continue;
              }
              if (!seen.count(r.key) && local.insert(r.key).second) { std::string line = std::to_string(fi) + " " + std::to_string(oi) + " " + r.key + "\n"; ssize_t wr = write(recfd, line.data(), line.size()); (void)wr; }
              if (MODE == "c16") {
                for (long k = 0; k < r.allocs_last; k++) {
                  sh[wi].k = k; set_case(hist_string(h, am) + "!" + std::to_string(k));
                  RunResult fr = run_history(h, am, true, k);
                  if (!fr.member) continue;
                  count("fault_runs"); count("executions");
                  distinct(ref::fnv(r.key.data(), r.key.size(), oi * 131 + k));
                  if (fr.failed) { bool contaminated = false; for (auto& b : arena::A().blocks) if (b.live && b.size <= 3 * sizeof(double)) contaminated = true; if (contaminated) { fflush(stdout); close(recfd); finish(); _exit(77); } }
                }
              }
            }
          }
          close(recfd); finish(); _exit(0);
        }
        pids[wi] = pid;
      };
      for (int wi = 0; wi < W; wi++) { std::string base = tmpdir + "/w" + std::to_string(wi); unlink((base + ".out").c_str()); unlink((base + ".err").c_str()); unlink((base + ".rec").c_str()); spawn(wi); }
      int running = W;
      while (running > 0) {
        int stt = 0; pid_t p = wait(&stt);
        int wi = -1; for (int q = 0; q < W; q++) if (pids[q] == p) wi = q;
        if (wi < 0) continue;
        if (WIFEXITED(stt) && WEXITSTATUS(stt) == 0) { running--; continue; }
        // worker stopped at a transition: 77 = reported a violation itself and asks for a clean restart; anything else = crash
        long fi = sh[wi].parent, oi = sh[wi].op, k = sh[wi].k;
        if (!(WIFEXITED(stt) && WEXITSTATUS(stt) == 77)) {
          std::vector<int> h = frontier[fi]; h.push_back((int)oi);
          std::string hs = hist_string(h, am) + (k >= 0 ? "!" + std::to_string(k) : "");
          std::string err; { FILE* f = fopen((tmpdir + "/w" + std::to_string(wi) + ".err").c_str(), "r"); if (f) { char bufc[8192]; size_t n; while ((n = fread(bufc, 1, sizeof bufc, f)) > 0) err.append(bufc, n); fclose(f); } }
          std::string summ = "signal"; size_t sp = err.rfind("SUMMARY:"); if (sp != std::string::npos) { summ = err.substr(sp + 9, err.find('\n', sp) - sp - 9); size_t sl = summ.find(" /"); size_t in = summ.find(" in "); if (sl != std::string::npos) summ = summ.substr(0, sl) + (in != std::string::npos ? summ.substr(in) : ""); for (auto& ch : summ) if (ch == ' ') ch = '_'; summ = summ.substr(0, 90); }
          else if (err.find("runtime error:") != std::string::npos) summ = "ubsan";
          violation("crash:" + summ, "{\"replay\":" + jstr(hs) + ",\"history\":" + jstr(hist_names(h)) + ",\"exit\":" + std::to_string(WIFEXITED(stt) ? WEXITSTATUS(stt) : -WTERMSIG(stt)) + ",\"stderr_tail\":" + jstr(err.size() > 1200 ? err.substr(err.size() - 1200) : err) + "}");
          unlink((tmpdir + "/w" + std::to_string(wi) + ".err").c_str());
        }
        resume[wi] = sh[wi].done + 1;
        spawn(wi);
      }
      // merge: records in deterministic order
      struct Rec { size_t fi, oi; std::string key; };
      std::vector<Rec> recs;
      for (int wi = 0; wi < W; wi++) {
        std::string base = tmpdir + "/w" + std::to_string(wi);
        FILE* f = fopen((base + ".rec").c_str(), "r");
        if (f) { static char line[1 << 16]; while (fgets(line, sizeof line, f)) { size_t a, b; int off = 0; if (sscanf(line, "%zu %zu %n", &a, &b, &off) >= 2 && a < frontier.size() && b < nreal) { std::string k = line + off; while (!k.empty() && (k.back() == '\n')) k.pop_back(); recs.push_back(Rec{a, b, k}); } } fclose(f); }
        f = fopen((base + ".out").c_str(), "r");
        if (f) { char line[65536]; while (fgets(line, sizeof line, f)) {
            if (!strncmp(line, "#V ", 3)) { std::string l = line; std::string sig = l.substr(3, l.find('\t') - 3); if (vio_seen[sig]++ < 3) fputs(line, stdout); st().violations++; }
            else if (!strncmp(line, "#C ", 3)) { char nm[512]; long v; if (sscanf(line + 3, "%511s %ld", nm, &v) == 2) agg_counts[nm] += v; }
          } fclose(f); }
      }
      std::sort(recs.begin(), recs.end(), [](const Rec& a, const Rec& b) { return a.fi != b.fi ? a.fi < b.fi : a.oi < b.oi; });
      std::vector<std::vector<int>> next;
      for (auto& r : recs) if (seen.insert(r.key).second) { std::vector<int> h = frontier[r.fi]; h.push_back((int)r.oi); next.push_back(h); total_states++; if (total_states % 997 == 1) sample("{\"history\":" + jstr(hist_names(h)) + ",\"key\":" + jstr(r.key) + "}"); }
      frontier.swap(next);
      depth_reached = std::max(depth_reached, depth);
      // once a level has produced violations the verdict is known; deeper levels of a broken tree only cost time
      if (st().violations > 0 && !frontier.empty()) { info("stopped", fmt("violations found at depth %d; deeper levels not explored", depth)); frontier.clear(); closed = false; break; }
      fprintf(stderr, "[hist %s am=%d] level %d: %zu new states, %ld total, %.1fs\n", MODE.c_str(), am, depth, frontier.size(), total_states, std::chrono::duration<double>(std::chrono::steady_clock::now() - t0).count());
    }
    if (!frontier.empty()) { closed = false; }
  }
  if (system(("rm -rf " + tmpdir).c_str())) {}
  total_trans = agg_counts["transitions"]; total_fault_runs = agg_counts["fault_runs"];
  count("states", total_states); count("transitions", total_trans); count("executions", agg_counts["executions"]);
  count("evaluations", MODE == "c16" ? total_fault_runs : total_trans);
  if (MODE == "c16") { count("fault_runs", total_fault_runs); }
  for (auto& kv : vio_seen) st().vio_per_sig[kv.first] = kv.second;
  maxstat("depth_reached", depth_reached);
  info("closure:" + MODE + fmt(":slots=%d,bufs=%d,dims=%zu,depthcap=%d", NS, NB, DIMS.size(), maxdepth), closed ? "reached: no new abstract state at the last level" : "NOT reached (depth cap or deadline)");
  if (!closed && maxdepth >= 1000) not_exhaustive();
  // distinct: abstract states (c08/c15) or distinct (state, op, k) fault points (c16)
  if (MODE == "c16") { printf("#C distinct %ld\n", agg_counts["distinct"]); st().distinct.clear(); for (auto& kv : st().cnt) printf("#C %s %lld\n", kv.first.c_str(), kv.second); for (auto& kv : st().mx) printf("#M %s %s\n", kv.first.c_str(), jnum(kv.second).c_str()); for (auto& kv : vio_seen) printf("#C violations:%s %d\n", kv.first.c_str(), kv.second); printf("#X %d\n", st().exhaustive ? 1 : 0); return 0; }
  for (long q = 0; q < total_states; q++) st().distinct.insert((uint64_t)q + 1);
  finish();
  return 0;
}
