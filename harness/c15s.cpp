// C15 (solver objects): all histories up to a depth over a pool {one solver slot, one vector slot},
// including calls that end in a library exception; oracle = ASan/UBSan + arena ledger + teardown probe
// (+ LeakSanitizer for blocks the library obtains from malloc through GSL).
#include "arena.hpp"
#include "solver.hpp"
#include <memory>
#include <chrono>
#ifdef VF_ASAN
#include <sanitizer/lsan_interface.h>
#endif
using namespace vf;

enum { S_NEW2, S_NEW3, S_NEW6, S_DESTROY, S_INI_OTHER, S_XLIN, S_XLOG, S_XLOG_BAD, S_XVEC, S_XVEC_UNSORTED, S_XVEC_WRONGSIZE, S_XTYPE_BAD,
       S_EVOLVE_NONUM, S_EVOLVE_NUM, S_EVOLVE_MSADAMS, S_EVOLVE_GSLFAIL, S_EXPECT_NODE, S_EXPECT_IN, S_EXPECT_OUT_HI, S_EXPECT_OUT_LO, S_EXPECT_AVG, S_INTER_IN, S_INTER_OUT,
       S_GETI_IN, S_GETI_OUT, S_MOVE_CTOR, S_MOVE_ASSIGN_FRESH, S_MOVE_ASSIGN_USED, V_FROM_STATE, V_SIZED4, V_INTO_STATE, V_RESET, S_REGRID_FEWER, NOPS };
static const char* NAME[] = {"new solver(nx=2,d=2)", "new solver(nx=3,d=3)", "new solver(nx=1,d=6)", "destroy solver", "ini(other dims)", "Set_xrange lin", "Set_xrange log", "Set_xrange log xmin<=0 [throws]", "Set_xrange(vector)",
                             "Set_xrange(unsorted) [throws]", "Set_xrange(wrong size) [throws]", "Set_xrange bad scale [throws]", "Evolve without numerics", "Evolve rkf45", "Evolve msadams", "Evolve fixed step, impossible tolerance [throws]",
                             "GetExpectationValue(node)", "GetExpectationValueD(inside)", "GetExpectationValueD(above) [throws]", "GetExpectationValueD(below) [throws]", "GetExpectationValueD(avg)", "GetIntermediateState(inside)",
                             "GetIntermediateState(outside) [throws]", "Get_i(inside)", "Get_i(outside) [throws]", "move-construct solver", "move-assign solver into fresh", "move-assign solver into used", "vector = state rho",
                             "vector = SU_vector(4)", "state rho = vector [may throw]", "vector reset", "wide log grid; ini(fewer nodes); Set_xrange lin"};

struct Pool { std::unique_ptr<Probe> s; SU_vector v; bool xset = false; };

static Problem prob(int nx, int d) { Problem p; p.nx = nx; p.d = d; p.nrho = 2; p.nsc = 1; p.family = 0; p.kappa = 0.3; p.kappa2 = 0; bool sw[5] = {true, true, false, true, true}; for (int b = 0; b < 5; b++) p.sw[b] = sw[b]; return p; }
static std::unique_ptr<Probe> mk(int nx, int d) { Problem p = prob(nx, d); std::unique_ptr<Probe> s(new Probe(p, 0.5)); s->Set_rel_error(1e-8); s->Set_abs_error(1e-8); s->Set_h(1e-3); s->set_flat(probe_state(p, 0)); return s; }


static bool enabled(const Pool& P, int op) {
  bool has = (bool)P.s;
  switch (op) {
    case S_NEW2: case S_NEW3: case S_NEW6: case V_SIZED4: case V_RESET: return true;
    case S_EXPECT_NODE: return has;
    case S_EXPECT_IN: case S_EXPECT_OUT_HI: case S_EXPECT_OUT_LO: case S_EXPECT_AVG: case S_INTER_IN: case S_INTER_OUT: case S_GETI_IN: case S_GETI_OUT: return has && P.xset && P.s->P.nx >= 2;
    case S_XLOG: case S_XLIN: case S_XLOG_BAD: case S_XVEC: case S_XVEC_UNSORTED: case S_XVEC_WRONGSIZE: case S_XTYPE_BAD: return has;
    case V_INTO_STATE: return has && P.v.Dim() > 0;
    default: return has;
  }
}

// returns 0 ok, 1 expected exception, 2 unexpected exception / missing exception
static int apply(Pool& P, int op, std::string& what) {
  bool must_throw = false, may_throw = false;
  try {
    switch (op) {
      case S_NEW2: P.s = mk(2, 2); P.xset = false; break;
      case S_NEW3: P.s = mk(3, 3); P.xset = false; break;
      case S_NEW6: P.s = mk(1, 6); P.xset = false; break;
      case S_DESTROY: P.s.reset(); P.xset = false; break;
      case S_INI_OTHER: { int d = P.s->P.d == 2 ? 4 : 2, nx = P.s->P.nx == 2 ? 3 : 2; Problem p = prob(nx, d); P.s->ini(nx, d, p.nrho, p.nsc, 1.0); P.s->P = p; P.s->set_flat(probe_state(p, 1)); P.xset = false; } break;
      case S_REGRID_FEWER: { if (P.s->P.nx < 2) { P.s->Set_xrange(1.0, 4.0, "linear"); P.xset = true; break; }
        P.s->Set_xrange(0.5, 400.0, "log"); int nx = std::max(2, P.s->P.nx - 1), d = P.s->P.d; Problem p = prob(nx, d); P.s->ini(nx, d, p.nrho, p.nsc, 1.0); P.s->P = p; P.s->set_flat(probe_state(p, 1));
        P.s->Set_xrange(1.0, 4.0, "linear"); P.xset = true; } break;
      case S_XLIN: P.s->Set_xrange(1.0, 4.0, "linear"); P.xset = true; break;
      case S_XLOG: P.s->Set_xrange(0.5, 40.0, "log"); P.xset = true; break;
      case S_XLOG_BAD: must_throw = true; P.s->Set_xrange(0.0, 4.0, "log"); break;
      case S_XVEC: { std::vector<double> g(P.s->P.nx); for (int i = 0; i < P.s->P.nx; i++) g[i] = 1.0 + i * i; P.s->Set_xrange(g); P.xset = true; } break;
      case S_XVEC_UNSORTED: { std::vector<double> g(P.s->P.nx); for (int i = 0; i < P.s->P.nx; i++) g[i] = 5.0 - i; if (P.s->P.nx >= 2) must_throw = true; P.s->Set_xrange(g); if (P.s->P.nx < 2) P.xset = true; } break;
      case S_XVEC_WRONGSIZE: must_throw = true; P.s->Set_xrange(std::vector<double>(P.s->P.nx + 1, 1.0)); break;
      case S_XTYPE_BAD: must_throw = true; P.s->Set_xrange(1.0, 2.0, "cubic"); break;
      case S_EVOLVE_NONUM: P.s->Set_AnyNumerics(false); P.s->Evolve(0.3); P.s->apply_switches(); break;
      case S_EVOLVE_NUM: P.s->Set_GSL_step(gsl_odeiv2_step_rkf45); P.s->Set_AdaptiveStep(true); P.s->Evolve(0.2); break;
      case S_EVOLVE_MSADAMS: P.s->Set_GSL_step(gsl_odeiv2_step_msadams); P.s->Set_AdaptiveStep(true); P.s->Evolve(0.2); P.s->Set_GSL_step(gsl_odeiv2_step_rkf45); break;
      case S_EVOLVE_GSLFAIL: { must_throw = true; P.s->Set_GSL_step(gsl_odeiv2_step_rkf45); P.s->Set_AdaptiveStep(false); P.s->Set_NumSteps(1); P.s->Set_rel_error(1e-300); P.s->Set_abs_error(1e-300);
        struct Restore { Probe* s; ~Restore() { s->Set_AdaptiveStep(true); s->Set_rel_error(1e-8); s->Set_abs_error(1e-8); s->Set_NumSteps(1000); } } rs{P.s.get()}; P.s->Evolve(5.0); } break;
      case S_EXPECT_NODE: { volatile double x = P.s->GetExpectationValue(mkvec(P.s->P.d, probe(P.s->P.d, 1)), 1, P.s->P.nx - 1); (void)x; } break;
      // the buffer-less overloads keep SU_vectors in thread-local statics that outlive an episode of the arena; they are exercised in C05 / C18
      case S_EXPECT_IN: { squids::SQuIDS::expectationValueDBuffer buf(P.s->P.d); double x = 0.5 * (P.s->Get_x(0) + P.s->Get_x(1)); volatile double y = P.s->GetExpectationValueD(mkvec(P.s->P.d, probe(P.s->P.d, 1)), 0, x, buf); (void)y; } break;
      case S_EXPECT_OUT_HI: must_throw = true; { squids::SQuIDS::expectationValueDBuffer buf(P.s->P.d == 2 ? 3 : 2); volatile double y = P.s->GetExpectationValueD(mkvec(P.s->P.d, probe(P.s->P.d, 1)), 0, P.s->Get_x(P.s->P.nx - 1) + 1.0, buf); (void)y; } break;
      case S_EXPECT_OUT_LO: must_throw = true; { squids::SQuIDS::expectationValueDBuffer buf(P.s->P.d); volatile double y = P.s->GetExpectationValueD(mkvec(P.s->P.d, probe(P.s->P.d, 1)), 0, P.s->Get_x(0) - 1.0, buf); (void)y; } break;
      case S_EXPECT_AVG: { int d = P.s->P.d; std::vector<bool> avr(d * (d - 1) / 2); double x = 0.5 * (P.s->Get_x(0) + P.s->Get_x(1)); squids::SQuIDS::expectationValueDBuffer buf(d == 2 ? 3 : 2); volatile double y = P.s->GetExpectationValueD(mkvec(d, probe(d, 1)), 1, x, buf, 0.5, avr); (void)y; } break;
      case S_INTER_IN: { SU_vector r = P.s->GetIntermediateState(1, P.s->Get_x(1)); (void)r; } break;
      case S_INTER_OUT: must_throw = true; { SU_vector r = P.s->GetIntermediateState(0, P.s->Get_x(P.s->P.nx - 1) * 2 + 10); (void)r; } break;
      case S_GETI_IN: { volatile unsigned i = P.s->Get_i(0.5 * (P.s->Get_x(0) + P.s->Get_x(1))); (void)i; } break;
      case S_GETI_OUT: must_throw = true; { volatile unsigned i = P.s->Get_i(P.s->Get_x(0) - 3.0); (void)i; } break;
      case S_MOVE_CTOR: { std::unique_ptr<Probe> n(new Probe(std::move(*P.s))); P.s.reset(); P.s = std::move(n); } break;
      case S_MOVE_ASSIGN_FRESH: { std::unique_ptr<Probe> n(new Probe()); *n = std::move(*P.s); P.s.reset(); P.s = std::move(n); } break;
      case S_MOVE_ASSIGN_USED: { std::unique_ptr<Probe> n = mk(P.s->P.nx == 2 ? 3 : 2, P.s->P.d == 3 ? 2 : 3); n->Evolve(0.1); *n = std::move(*P.s); P.s.reset(); P.s = std::move(n); } break;
      case V_FROM_STATE: P.v = P.s->rho(0, 1); break;
      case V_SIZED4: P.v = SU_vector(4); break;
      case V_INTO_STATE: may_throw = true; P.s->rho(0, 0) = P.v; break;  // external storage: throws unless the dimension matches
      case V_RESET: P.v = SU_vector(); break;
    }
  } catch (const std::exception& ex) { what = ex.what(); return (must_throw || may_throw) ? 1 : 2; }
  if (must_throw) { what = "no exception"; return 2; }
  return 0;
}

static std::string hs(const std::vector<int>& h) { std::string s; for (size_t i = 0; i < h.size(); i++) { if (i) s += ","; s += std::to_string(h[i]); } return s; }
static std::string hn(const std::vector<int>& h) { std::string s = "["; for (size_t i = 0; i < h.size(); i++) { if (i) s += ","; s += jstr(NAME[h[i]]); } return s + "]"; }

static bool run(const std::vector<int>& h, int am) {
  arena::Arena& A = arena::A();
  A.active = false; SU_vector::clear_mem_cache(); A.reset(); A.align_mode = am; A.counting = false; A.active = true;
  set_case(std::to_string(am) + ":" + hs(h));
  bool member = true;
  {
    Pool P;
    for (size_t i = 0; i < h.size(); i++) {
      if (!enabled(P, h[i])) { member = false; break; }
      count("transitions");
      std::string what; int rc = apply(P, h[i], what);
      if (rc == 2) { violation(std::string("solver-history:exception-contract:") + NAME[h[i]], "{\"replay\":" + jstr(std::to_string(am) + ":" + hs(h)) + ",\"history\":" + hn(h) + ",\"step\":" + std::to_string(i) + ",\"what\":" + jstr(what) + "}"); break; }
      if (A.errors()) { violation("ledger:" + A.first_error, "{\"replay\":" + jstr(std::to_string(am) + ":" + hs(h)) + ",\"history\":" + hn(h) + ",\"step\":" + std::to_string(i) + "}"); break; }
    }
  }  // pool destroyed here
  SU_vector::clear_mem_cache();
  if (member) {
    if (A.errors()) violation("ledger:" + A.first_error, "{\"replay\":" + jstr(std::to_string(am) + ":" + hs(h)) + ",\"history\":" + hn(h) + ",\"step\":\"teardown\"}");
    else if (A.live_blocks()) { std::string sizes; for (auto& b : A.blocks) if (b.live) sizes += std::to_string(b.size) + " "; violation("ledger:leak-at-quiescence:solver-history", "{\"replay\":" + jstr(std::to_string(am) + ":" + hs(h)) + ",\"history\":" + hn(h) + ",\"live_block_bytes\":" + jstr(sizes) + "}"); }
  }
  A.active = false;
  set_case("");
  return member;
}

int main(int argc, char** argv) {
  Args ar = parse(argc, argv); quiet_gsl(); install_crash_reporter();
  if (!ar.replay.empty()) { int am = atoi(ar.replay.c_str()); const char* p = strchr(ar.replay.c_str(), ':'); std::vector<int> h; p = p ? p + 1 : ar.replay.c_str(); while (*p) { h.push_back(atoi(p)); const char* c = strchr(p, ','); if (!c) break; p = c + 1; } count("evaluations"); count("states"); run(h, am); finish(); return 0; }
  int depth = (int)ar.geti("depth", 3); double deadline = (double)ar.geti("deadline", 100000);
  auto t0 = std::chrono::steady_clock::now(); long long caseno = 0;
  for (int am = 0; am < 2; am++) for (int L = 1; L <= depth; L++) {
    std::vector<int> h(L, 0);
    while (true) {
      if ((caseno++ % ar.nshards) == ar.shard) {
        if (std::chrono::duration<double>(std::chrono::steady_clock::now() - t0).count() > deadline) { not_exhaustive(); info("deadline", "hit at depth " + std::to_string(L)); goto done; }
        if (run(h, am)) { count("states"); count("executions"); count("evaluations"); uint64_t hh = ref::fnv(&am, 4); distinct(ref::fnv(h.data(), h.size() * sizeof(int), hh)); sample_every(caseno, 30011, "{\"align_mode\":" + std::to_string(am) + ",\"history\":" + hn(h) + "}"); maxstat("max_depth", L); }
      }
      int k = L - 1; while (k >= 0 && ++h[k] == NOPS) { h[k] = 0; k--; }
      if (k < 0) break;
    }
  }
done:
#ifdef VF_ASAN
  // blocks the library obtained from malloc (GSL drivers, matrices, RNG) and never released
  if (__lsan_do_recoverable_leak_check()) violation("lsan:leak-of-malloc-block", "{\"shard\":" + std::to_string(ar.shard) + "}");
  count("lsan_checks");
#endif
  finish();
  return 0;
}
