"""Registry of build configurations and property checks (read by check.py)."""

UBSAN = "-fsanitize=alignment,bounds,null,signed-integer-overflow,shift,vla-bound"
CONFIGS = {
    # the Makefile's own flags: the vectorised code paths that ship
    "prod": dict(cxx=["g++"], flags=["-std=c++11", "-O3", "-fPIC", "-Wno-abi", "-w"]),
    # memory-safety oracle
    "asan": dict(cxx=["clang++"], flags=["-std=c++11", "-O1", "-g", "-fno-omit-frame-pointer", "-fsanitize=address", UBSAN,
                                         "-fno-sanitize-recover=undefined", "-w"]),
    # free-running race detection
    "tsan": dict(cxx=["clang++"], flags=["-std=c++11", "-O1", "-g", "-fsanitize=thread", "-w"]),
    # plain debug build, asserts on
    "dbg": dict(cxx=["g++"], flags=["-std=c++11", "-O1", "-g", "-w"]),
}

E = "exploration"
MC = "model_checking"
FE = "fault_enumeration"


def run(name, src, config="prod", **kw):
    d = dict(name=name, srcs=[src] if isinstance(src, str) else src, config=config)
    d.update(kw)
    return d


CHECKS = {}

CHECKS["C13"] = dict(
    level=E,
    rule="every factory call Projector(d,i), Identity(d), Generator(d,k), PosProjector(d,k), NegProjector(d,k) for d=2..6 and every admissible index, "
         "compared entry-wise with the dense 0/1 matrix; plus idempotence/orthogonality/completeness products; a case is non-trivial when the expected "
         "operator is non-zero, distinct = distinct (factory,d,index)",
    assumptions=["reference GGM basis in harness/ref.hpp (layout as stated in C01)", "index k=d of Pos/NegProjector accepted as identity or exception"],
    runs=[run("c13", "c13.cpp"), run("c13_asan", "c13.cpp", "asan")],
)
NOT_APPLICABLE = {}
