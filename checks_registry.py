"""Registry of build configurations and property checks (read by check.py)."""

UBSAN = "-fsanitize=alignment,bounds,null,signed-integer-overflow,shift,vla-bound"
CONFIGS = {
    # the Makefile's own flags: the vectorised code paths that ship
    "prod": dict(cxx=["g++"], flags=["-std=c++11", "-O3", "-fPIC", "-Wno-abi", "-w"]),
    # memory-safety oracle
    "asan": dict(cxx=["clang++"], flags=["-std=c++11", "-O1", "-g", "-fno-omit-frame-pointer", "-fsanitize=address", UBSAN,
                                         "-fno-sanitize-recover=undefined", "-w"]),
    # free-running race detection
    "tsan": dict(cxx=["clang++"], flags=["-std=c++11", "-O1", "-g", "-fsanitize=thread", "-w"]),
    # plain debug build, asserts on
    "dbg": dict(cxx=["g++"], flags=["-std=c++11", "-O1", "-g", "-w"]),
    # schedule explorer: plain build; the one instrumented TU gets -fsanitize=thread as a per-source flag and the
    # program is linked WITHOUT libtsan (the harness defines the __tsan_* entry points itself)
    "vsched": dict(cxx=["g++"], flags=["-std=c++11", "-O1", "-g", "-w"], lib=False, libs=["-lm"]),
}

E = "exploration"
MC = "model_checking"
FE = "fault_enumeration"


def run(name, src, config="prod", **kw):
    d = dict(name=name, srcs=[src] if isinstance(src, str) else src, config=config)
    d.update(kw)
    return d


CHECKS = {}

CHECKS["C13"] = dict(
    level=E,
    rule="every factory call Projector(d,i), Identity(d), Generator(d,k), PosProjector(d,k), NegProjector(d,k) for d=2..6 and every admissible index, "
         "compared entry-wise with the dense 0/1 matrix; plus idempotence/orthogonality/completeness products; a case is non-trivial when the expected "
         "operator is non-zero, distinct = distinct (factory,d,index) Every call also after a burst of unrelated library calls, and all 310 calls once more from a namespace-scope initialiser linked before the library (calls during static initialisation). Results modified in place / consumed as temporaries and the call repeated (independence of results); every allocation point of every factory call refused once, then all factories re-checked.",
    assumptions=["reference GGM basis in harness/ref.hpp (layout as stated in C01)", "index k=d of Pos/NegProjector accepted as identity or exception"],
    runs=[run("c13", "c13.cpp"), run("c13_asan", "c13.cpp", "asan")],
)

CHECKS["C01"] = dict(
    level=E,
    rule="d=2..6; vectors: zero, all unit vectors (two signs/scales), all two-hot e_k+2e_l (k<l), three dense probes and their 1e+-150 (thorough: 1e-300, subnormal) rescalings; "
         "Hermitian matrices: E_jj, E_jk+E_kj, i(E_jk-E_kj), 2x2 blocks, dense probes; all ordered pairs of a ~40-vector subset x 8 scalars for + - unary- *s s* += -= *= /= ==; "
         "== over all dimension pairs. Oracle: documented GGM basis built independently (ref.hpp), trace projection, IEEE component-wise results. "
         "non-trivial = some operand non-zero; distinct by hash of the operand components Nested expressions (v*s)*t, (s*v)*t, -(v*s), (v*s)+-(w*t), (v+-w)*s, chained *= and /= over all ordered pairs of an 11-value scalar alphabet incl. 1e+-200, 1e+-300, subnormal, signed zero: each sub-expression rounded on its own.",
    assumptions=["finite inputs only", "arbitrary reals covered through linearity, which is itself checked on the two-hot/probe/pair grids"],
    runs=[run("c01", "c01.cpp"), run("c01_asan", "c01.cpp", "asan", args=["--reduced"])],
)

CHECKS["C02"] = dict(
    level=E,
    rule="d=2..6; every ordered pair of basis vectors (reads every structure constant) through construction, assignment over stale content, += ; "
         "bilinearity on all two-hot x two-hot pairs with two coefficient sets (quick: d<=4, and two-hot x basis for d=5,6; thorough: all d); 10x10 probe pairs incl. 1e+-100 rescalings; "
         "operator*, SUTrace<0>, SUTrace<AlignedStorage>. Oracle: i(AB-BA), AB+BA, Tr(AB) from dense reference matrices (bilinear extension of the reference tables), two-sided, full output vector. "
         "non-trivial = both operands non-zero; distinct by operand hash Guarantee-wrapped commutators with aliasing destinations; owner/view aliasing; externally backed operands at every 8-byte offset; subnormal x huge operands before and after a refused solver call; floating-point mode word compared at the end.",
    assumptions=["finite inputs", "values outside the alphabet covered through bilinearity (checked on the two-hot grid)"],
    runs=[run("c02", "c02.cpp"), run("c02_asan", "c02.cpp", "asan", args=["--reduced"])],
)

CHECKS["C03"] = dict(
    level=E,
    rule="d=2..6; every diagonal spectrum over the level alphabet {-1,0,2.5}^d (thorough {-1,0,1,2.5}^d: all degeneracy patterns) plus large (1e3), tiny (1e-6) and incommensurate spectra; "
         "t in {0,+-0.3,1,-2.5,7,+-1e3,1e-8}; A over all basis vectors and three dense probes; both forms (Evolve(H,t); PrepareEvolve+Evolve(buffer)); H built by the reference projection. "
         "Oracle: B_jk=A_jk exp(i(E_j-E_k)t) entry-wise; t=0 identity; group law on (t1,t2) pairs; scalar products of evolved probe pairs. non-trivial = non-zero spectrum, t!=0, A!=0 Reciprocal scalings (S*E, t/S), S in {1e+-16, 2^60, 4e17, 1e+-100}; output buffers with two garbage pre-fills; results consumed by += / -=.",
    assumptions=["H diagonal (documented precondition)", "finite inputs"],
    runs=[run("c03", "c03.cpp", shards=8), run("c03_asan", "c03.cpp", "asan", args=["--reduced"])],
)

CHECKS["C11"] = dict(
    level=E,
    rule="d=2..6; every spectrum in {0,1,2,4}^d (all degeneracy patterns) plus an incommensurate and a tiny (1e-6) spectrum; averaging PrepareEvolve over t x scale in {0,.37,1.21,3.3,1e9,-1.21}; "
         "LowPassFilter and AvgRampFilter over cutoff x ramp in {0,.1,.5c,c,1.5c,-.25c} (x t for the phase filter) started from a buffer of ones; interval PrepareEvolve over four intervals. "
         "Pair order recovered from the library's own unaveraged table on an incommensurate spectrum. Oracle: exact threshold sets, multipliers 1/ramp/0, closed-form interval average, finiteness. "
         "threshold ties (|phase|==|scale| up to 1e-12) are skipped and counted. non-trivial = non-zero spectrum; distinct by (spectrum, parameters) Ten intervals incl. symmetric, narrow and far from the origin ([2^27,2^27+1], [4096,4096+2^-10]); reference average exp(i a tm) sinc(a h) in long double, accepted error without 1/(a*range) amplification.",
    assumptions=["H diagonal", "finite inputs", "exact ties at a hard threshold are not decided"],
    runs=[run("c11", "c11.cpp", shards=8), run("c11_asan", "c11.cpp", "asan", args=["--reduced"])],
)

CHECKS["C06"] = dict(
    level=E,
    rule="all 35 (d,i,j) plane-rotation kernels x (theta,delta) in a 9x9 angle grid (quick: 4x4 for d=5,6) x (all basis vectors + 3 probes); mixing matrices for parameter sets "
         "{all zero, every single pair x 4x4 angles/phases, three all-pairs-distinct assignments} in every d: unitarity, RotateToB1/B0, B0(B1)=id, Rotate(U), UTransform(U), UDaggerTransform(U), "
         "both WeightedRotation overloads, scalar product and identity component; parameter store: all index pairs 0..8 for angle/phase/energy difference set+get. "
         "Oracle: dense R^dagger A R, U^dagger A U, U A U^dagger with the U the library returns. non-trivial = non-zero angle / non-zero parameter set Small angles (1e-9, -3e-8, 2pi-2e-9) for every plane and as parameter sets; Yd aliasing the rotated vector; strided matrix views; update histories on one Const.",
    assumptions=["product order of the mixing matrix is taken from the library (the statement fixes unitarity and mutual consistency only)", "i<j for plane rotations"],
    runs=[run("c06", "c06.cpp", shards=8), run("c06_asan", "c06.cpp", "asan", args=["--reduced"])],
)

CHECKS["C12"] = dict(
    level=E,
    rule="d=2..6; zero, every generator, every two-hot e_i+e_j and e_i+2e_j, every diagonal matrix over {0,1,2}^d (projectors, multiples of identity, all degeneracy patterns), rank-one matrices from six unit vectors, "
         "dense probes (and 1e+-100 rescalings), rotated degenerate and near-degenerate spectra (eps in {0,1e-6,1e-9,1e-12}, two fixed unitaries); both order flags. "
         "Self-certifying oracle: finite, |V^dagger V-1|<=1e-10, |MV-V diag L|<=1e-9|M|, ascending when ordered. non-trivial = non-zero input; distinct by component hash and order flag Identity and traceless parts of independent magnitudes (1e-308..3e300); separated levels with couplings 1e-6..1e-14.",
    assumptions=["inputs outside the structured families are not enumerated"],
    runs=[run("c12", "c12.cpp"), run("c12_asan", "c12.cpp", "asan", args=["--reduced"])],
)

CHECKS["C07"] = dict(
    level=E,
    rule="n=2..6 x 7 matrix families (anti-Hermitian, complex diagonal, nilpotent, dense non-normal, normal with bounded real spectrum, rank one, block 2+(n-2)) x 1-norm grid "
         "{0,1e-8, 24 (thorough 60) log-spaced values in [1e-4,50], the five Pade thresholds +-1%, and 100/300/1e3 for the anti-Hermitian/normal families}; three estimator RNG seeds (separate runs); "
         "all 15625 ordered call triples over 25 (size, norm band) representatives on one thread; UTransform(V,i s) for V over generators, two-hot and probes, s in {0,+-0.3,1,-2.5,10}, every d incl. 2. "
         "Oracle: long-double scaling-and-squaring Taylor reference; relative 1-norm error <= 256 eps max(1,|A|) kappa (kappa=1 for normal families, |e^|A||/|e^A| otherwise); any exception is a violation. "
         "non-trivial = non-zero matrix / s != 0 Kernel-structured families (zero row sums, decoupled levels); every case also from/into strided windows; large multiples of difference projectors in UTransform.",
    assumptions=["matrices outside the seven families and norm grid are not enumerated", "reference conditioning estimate for non-normal inputs"],
    runs=[run("c07_s0", "c07.cpp"), run("c07_s1", "c07.cpp", seed_offset=1), run("c07_s2", "c07.cpp", seed_offset=2), run("c07_asan", "c07.cpp", "asan", args=["--reduced"])],
)

CHECKS["C17"] = dict(
    level=E,
    rule="nx = 2..65 (every value: all parity patterns of nx-1) x {linear, log} x (a,b) in {(0,1),(-3,5),(1,1e4),(1e-3,7.5),(2,2+1e-9)} (log only a>0) plus three user-supplied irregular sorted grids per nx "
         "and their unsorted / wrong-size variants; lookup argument: every node, nextafter on both sides of every node, mid and quarter points of every interval, just outside and far outside both ends. "
         "Oracle: monotone, ends within a few ulp, equal spacing in x / log x, user grid stored bit-exact, bad input rejected with the grid untouched; Get_i(x)=i with i<=nx-2 and x_i<=x<=x_{i+1}; outside throws. "
         "distinct by (grid, x) All histories of up to 3 of 8 grid-changing operations (lin, log, user grids, move assignment / construction) on one object for nx in {2,3,5,9,17}: nodes bit-identical to a fresh object's, full lookup sweep after every operation.",
    assumptions=["range taken as [x_first,x_last] of the stored nodes", "nx<=65"],
    runs=[run("c17", "c17.cpp"), run("c17_asan", "c17.cpp", "asan", args=["--reduced"])],
)

CHECKS["C05"] = dict(
    level=E,
    rule="d in {2,3,6} (thorough 2..6); grids: linear nx in {2,3,4,5,7}, log nx in {2,3,5}, three irregular user grids; time configurations (t_ini,elapsed,numerics) in 12 combinations reached through Evolve (elapsed positive, zero and negative; t_ini positive, zero and negative; the clock landing exactly on 0 with t_ini != 0); "
         "node states = distinct probes per node and rho (2 rhos); operators = all basis vectors + probe; x = every node, mid/quarter/0.9 points, nextafter inside both ends; outside = nextafter/near/far on both sides; "
         "all 7 overloads; 125 dimension sequences of three solvers queried alternately on a fresh thread (thread-local scratch). Oracle: dense Tr(e^{-iH0 tau} rho e^{iH0 tau} O), reference bracket by linear scan, "
         "H0 at x itself; agreement at nodes; unreachable-scale averaging == plain; reachable scale consistent with the averaged table; outside must throw on both sides. distinct by (grid, time cfg, node/x, operator) Every grid reached through six histories on the solver object (vector / natural overload on a fresh object, after an earlier lin / log / user grid with x-queries, by move assignment over a used object).",
    assumptions=["strictly increasing grids with >=2 nodes", "H0 diagonal", "stored state read through the derived class is the oracle's input"],
    runs=[run("c05", "c05.cpp", shards=8), run("c05_asan", "c05.cpp", "asan", args=["--reduced"])],
)

CHECKS["C14"] = dict(
    level=E,
    rule="one forked child per case under ASan+UBSan: all 20 ordered pairs d1!=d2 x 25 binary entry points (4 '+' overloads, 2 '-', scalar product, iCommutator, ACommutator, 4 ElementwiseOperation overloads, "
         "ElementwiseProduct, += / -= with vector and with proxies, Evolve(op,t) by construction / = / += / -=, Rotate(matrix)) x {own, external storage}; constructors and factories for d in {1,7,8}; "
         "matrices r x c for r,c in 1..8 (non-square or unsupported); component lists of every length 1..64 that is not a supported square; factory indices up to d*d+2. "
         "Oracle: a std::exception is thrown, every operand (and the red zone after external buffers) is bit-identical afterwards, no sanitizer report. Scalar products also between expression results and through SUTrace. distinct by case description Expression-by-expression evolutions incl. t=+-0; guarantee-wrapped compound assignments; operands that were the source of a move assignment; rejected matrix shapes as views into larger blocks.",
    assumptions=["SUTrace called directly and UTransform(SU_vector) are not in the statement's list", "dimension 0 is not in the statement's window"],
    runs=[run("c14_asan", "c14.cpp", "asan", shards=16)],
)

CHECKS["C04"] = dict(
    level=E,
    rule="Probe solver with term functions injective in (node,index,time). Layer 1 (scripted RK-shaped gsl_odeiv2_step_type passed through Set_GSL_step, two consecutive Evolve calls): nx in 1..3 x nsun {2,3,6} "
         "(thorough 2..6) x nrhos 1..3 x nscalars 0..2 x all 32 switch settings x (unit impulse at every flat state index [dense non-commuting operators] + 3 probe states [time-dependent commuting operators]); every "
         "derivative array the library writes is compared with the dense reference -i[HI,rho]-{G,rho}+P, -g s+i at the stepper's time, term call times checked. Layer 2: rk2,rk4,rkf45,rkck,rk8pd adaptive+fixed and msadams "
         "adaptive (11 modes) x nx x nsun x nrhos x nscalars x 32 switches x t_ini in {0,1.5} against the closed form; dense non-commuting family against e^{K tau} rho e^{K^dagger tau}; time-dependent terms with sources "
         "against an independent RK4 reference. The five Set_*Terms calls made in 12 order classes x 32 masks. non-trivial = at least one term enabled; distinct by (configuration, state / stepper mode)",
    assumptions=["linear term functions from the injective family; non-linear user terms are not explored", "scripted stepper restricted to the call shape of GSL's explicit steppers"],
    runs=[run("c04", "c04.cpp", shards=16), run("c04_asan", "c04.cpp", "asan", args=["--reduced"], shards=4)],
)

CHECKS["C10"] = dict(
    level=MC, engine="history-explorer",
    technique="explicit enumeration of all operation histories up to a depth on the real solver objects, checked step by step against a piecewise closed-form reference model",
    rule="alphabet of 19 operations {Evolve(0|0.3|0.7), toggle each of the 5 term switches, Set_AnyNumerics(false|true), stepper rkf45|rk4|msadams, toggle adaptive, toggle tolerance, move-construct, "
         "move-assign into a fresh and into a used solver (other dimensions), re-ini} on a Probe solver (nx=2, nsun in {2,3}, 1 rho, 1 scalar); every history up to depth 3 under ASan and depth 4 in the shipped build (quick) / additionally all depth-5 "
         "histories with >=2 Evolve (thorough); no state merging (values matter); a state is a history, a transition an operation application checked by the oracle Alphabet extended by Evolve(5e-4), toggle-h_min(1e-3), toggle-h_max(0.05); a refused Evolve may be followed by re-ini; used assignee with loose, different settings.",
    assumptions=["closed-form reference (commuting diagonal terms)", "msadams only in adaptive mode", "moved-from solvers are destroyed immediately (and their problem description poisoned first)"],
    runs=[run("c10_asan", "c10.cpp", "asan", shards=16, args=["--depth", "3"], tiers=("quick",)),
          run("c10_d4q", "c10.cpp", "prod", shards=16, args=["--depth", "4", "--deadline", "600"], tiers=("quick",)),
          run("c10_asan_t", "c10.cpp", "asan", shards=16, args=["--depth", "3"], tiers=("thorough",)),
          run("c10_d4", "c10.cpp", "prod", shards=16, args=["--depth", "4", "--deadline", "1500"], tiers=("thorough",)),
          run("c10_d5", "c10.cpp", "prod", shards=16, args=["--depth", "5", "--min-evolves", "2", "--deadline", "3000"], tiers=("thorough",))],
)

HIST_NOTE = ("pool of SU_vector slots and user buffers; alphabet = reset, sized / external / copy / move construction, copy / move assignment, 13 expression forms (all value-category overloads of + - unary- "
             "*s s* ElementwiseProduct) as assignment and as constructor argument over all slot combinations, SetBackingStore, writes to slots and buffers, ==; roots = empty pool and caches pre-filled to 31 and 32 blocks; "
             "allocator alignment answers {0 mod 32, 16 mod 32}; breadth-first search over histories replayed on the real objects, deduplicated by a canonical key of public observations "
             "(minimised over slot / buffer permutations), run to closure")
CHECKS["C08"] = dict(
    level=MC, engine="history-explorer",
    technique="explicit-state breadth-first search over operation histories replayed on the real objects, to closure of a canonical abstract state; reference model of value semantics with frame conditions",
    rule=HIST_NOTE + "; quick: 2 slots + 1 buffer (both alignment answers) and 3 slots + 2 buffers (alignment 0 mod 32), dims {2,3}, to closure; thorough: 3 slots + 2 buffers, dims {2,3} and {2,3,4}, all three alignment modes, to closure. "
         "Oracle: destination holds the model value, every other slot and buffer bit-identical (frame), consumed sources valid and exclusive, no two slots on one block, external storage never replaced or freed, ledger clean. The canonical key additionally holds the drained cache contents and, per vector, whether a size-changing assignment throws (behavioural probe)",
    assumptions=["component values are not part of the abstract state (no branch of the storage logic reads a component)", "at most 3 vectors and 2 user buffers alive at once",
                 "cached blocks enter the key as a multiset of (length, alignment)"],
    runs=[run("hist_c08_small", "hist.cpp", "asan", args=["--mode", "c08", "--slots", "2", "--bufs", "1", "--dims", "2.3", "--align", "0.1"], tiers=("quick",)),
          run("hist_c08_3slots", "hist.cpp", "asan", args=["--mode", "c08", "--slots", "3", "--bufs", "2", "--dims", "2.3", "--align", "0"], tiers=("quick",)),
          run("hist_c08_full", "hist.cpp", "asan", args=["--mode", "c08", "--slots", "3", "--bufs", "2", "--dims", "2.3", "--align", "0.1.2", "--deadline", "3000"], tiers=("thorough",)),
          run("hist_c08_d4", "hist.cpp", "asan", args=["--mode", "c08", "--slots", "3", "--bufs", "2", "--dims", "2.3.4", "--align", "0.1", "--deadline", "5000"], tiers=("thorough",))],
)

CHECKS["C15"] = dict(
    level=MC, engine="history-explorer",
    technique="explicit-state breadth-first search over operation histories (vectors: to closure; vectors + solver objects: all histories to a depth) under ASan/UBSan with an allocation ledger and a teardown probe",
    rule=HIST_NOTE + "; plus the wide alphabet: list / matrix constructors with valid and invalid sizes, invalid sized / external constructors, factories with valid and invalid arguments, GetComponents, GetGSLMatrix, "
         "GetEigenSystem, Transpose, Real/Imag, Rotate (plane and matrix, also of a wrong size), RotateToB0/B1, UTransform / UDaggerTransform, UTransform(v,i) (matrix exponential), both WeightedRotation overloads, Evolve "
         "(3 forms), commutators, compound assignments, scalar product - every slot combination, including all dimension mismatches (exceptions). Oracle: AddressSanitizer + UBSan (alignment, bounds, null, overflow, "
         "shift, vla), ledger (double / foreign / interior delete[]), storage validity of every slot, user-buffer guard zones, and after every transition the teardown probe: destroy everything, clear_mem_cache(), "
         "no block may remain live. Solver objects: see the c15s run",
    assumptions=["GSL's own malloc blocks are checked by LeakSanitizer in the solver run only", "at most 3 vectors / 2 buffers; dimension sets {2,3} (opposite parity), {2,4} and {3,5} (same parity: blocks of one dimension are cacheable under the other) in the closure runs, 2..6 in the solver histories"],
    runs=[run("c15_buffers_asan", "c11.cpp", "asan", args=["--reduced"]),   # PrepareEvolve (4 overloads), LowPassFilter, AvgRampFilter, Evolve(buffer) on exact-size heap buffers, d=2..6
          run("hist_c15_a1", "hist.cpp", "asan", args=["--mode", "c15", "--slots", "2", "--bufs", "1", "--dims", "2.3", "--align", "1"], tiers=("quick", "thorough")),
          run("hist_c15core_d24", "hist.cpp", "asan", args=["--mode", "c15core", "--slots", "3", "--bufs", "2", "--dims", "2.4", "--align", "0"], tiers=("quick", "thorough")),
          run("hist_c15core_d35", "hist.cpp", "asan", args=["--mode", "c15core", "--slots", "3", "--bufs", "1", "--dims", "3.5", "--align", "0"], tiers=("quick", "thorough")),
          run("hist_c15_a0_d4", "hist.cpp", "asan", args=["--mode", "c15", "--slots", "2", "--bufs", "1", "--dims", "2.3", "--align", "0", "--depth", "4"], tiers=("quick",)),
          run("hist_c15_a0", "hist.cpp", "asan", args=["--mode", "c15", "--slots", "2", "--bufs", "1", "--dims", "2.3", "--align", "0", "--deadline", "3000"], tiers=("thorough",), timeout={"thorough": 5000}),
          run("c15s", "c15s.cpp", "asan", shards=16, args=["--depth", "3"], tiers=("quick",), env={"ASAN_OPTIONS": "detect_leaks=1:leak_check_at_exit=0:allocator_may_return_null=1"}),
          run("c15s_d4", "c15s.cpp", "asan", shards=16, args=["--depth", "4", "--deadline", "3000"], tiers=("thorough",), env={"ASAN_OPTIONS": "detect_leaks=1:leak_check_at_exit=0:allocator_may_return_null=1"}),
          run("hist_c15_3slots", "hist.cpp", "asan", args=["--mode", "c15", "--slots", "3", "--bufs", "2", "--dims", "2.3", "--align", "1", "--deadline", "3000"], tiers=("thorough",), timeout={"thorough": 5000})],
)

CHECKS["C16"] = dict(
    level=FE, engine="history-explorer",
    technique="exhaustive allocation-fault enumeration: for every reachable abstract pool state (history search to closure) and every operation, fail exactly the k-th allocation for every k the operation performs",
    rule=HIST_NOTE + " plus the wide alphabet of C15 (conversions, factories, GetComponents, rotations, ...). For every transition (abstract pre-state, operation) of the search a dry run counts the N allocation points "
         "(operator new[] and scalar operator new reached from library code), then N runs fail exactly the k-th with std::bad_alloc. Oracle: bad_alloc propagates; every vector other than the assignment target is bit-identical; "
         "fresh allocations never receive a block some vector still references; every vector (including the target) can be reassigned and destroyed; ledger: no double / foreign delete[], nothing live after teardown. "
         "evaluations = injected runs, distinct = distinct (abstract pre-state, operation, k) Second enumerator c16f.cpp: element-wise operations with a callable whose copies allocate, 5 statement forms x 4 operand categories x d=2..6 x cold/warm cache, every allocation point (scalar and array new) refused once, own ledger.",
    assumptions=["GSL's malloc failures are outside the statement (bad_alloc only)", "allocation points that do not occur on a run because library-internal thread-local scratch is already warm are skipped",
                 "2 slots + 1 buffer to closure (quick), 3 slots + 2 buffers (thorough)"],
    runs=[run("c16_callable", "c16f.cpp", "asan"),   # element-wise operations with a callable whose copies allocate: every allocation point refused once
          run("hist_c16_a1", "hist.cpp", "asan", args=["--mode", "c16", "--slots", "2", "--bufs", "1", "--dims", "2.3", "--align", "1"], tiers=("quick", "thorough")),
          run("hist_c16_a0_d3", "hist.cpp", "asan", args=["--mode", "c16", "--slots", "2", "--bufs", "1", "--dims", "2.3", "--align", "0", "--depth", "3"], tiers=("quick",)),
          run("hist_c16_a0", "hist.cpp", "asan", args=["--mode", "c16", "--slots", "2", "--bufs", "1", "--dims", "2.3", "--align", "0", "--deadline", "3000"], tiers=("thorough",), timeout={"thorough": 5000}),
          run("hist_c16_3slots", "hist.cpp", "asan", args=["--mode", "c16", "--slots", "3", "--bufs", "2", "--dims", "2.3", "--align", "1", "--deadline", "3000"], tiers=("thorough",), timeout={"thorough": 5000})],
)

C09_PARTS = 10
def c09_srcs():
    return [("c09.cpp", ["-DC09_PART=%d" % k, "-DC09_NPARTS=%d" % C09_PARTS]) for k in range(C09_PARTS)]
CHECKS["C09"] = dict(
    level=MC, engine="enumerator",
    technique="exhaustive enumeration of one-statement programs over the product of compile-time shapes and run-time storage / alias configurations, differential oracle against naive evaluation",
    rule="statement kind {=, +=, -=, construction} x 20 operation overloads {a+b LL/RL/LR/RR, a-b LL/RL, -a L/R, a*s L/R, s*a L/R, iCommutator, ACommutator, Evolve(h,t), Evolve(buffer), ElementwiseOperation(f,.,.) LL/RL/LR/RR "
         "with non-commutative f} x guarantee sets (quick {none, all, each single}; thorough all 8) instantiated from templates; run time: target in {empty, own same dim, own other dim, external same dim, external other dim} x "
         "alias pattern in {none, v is a, v is b, v and a on one user buffer, v and b on one buffer, a is b, all one object} x d in {2,3,6} (thorough 2..6) x external-buffer alignment {ideal, not} x 2 operand value sets, stale "
         "target contents; a guarantee flag is asserted only where the harness computes it to be true. Oracle: the same operation evaluated on fresh copies into a fresh temporary (lvalues, no guarantees), then =/+=/-= "
         "component-wise (2 ulp); operands unchanged unless consumed or aliased; exception exactly for a size-changing assignment to external storage or a size-mismatched += / -=, std::runtime_error, target untouched. Operands self-owned or (one of them) externally backed; after every statement a follow-up size-changing assignment to the result must be refused exactly when its components live in a user buffer. "
         "a state = one statement shape with its configuration; a transition = its execution",
    assumptions=["nested expressions reduce to single-operation forms through temporaries", "the meaning of each operation is decided by C01-C03; here only fusion"],
    runs=[run("c09", c09_srcs(), "prod", shards=8), run("c09_asan", c09_srcs(), "asan", shards=8, args=["--reduced"])],
)

def c19_srcs(opt):
    return ["c19.cpp", ("c19_cache.cpp", ["-fsanitize=thread", "-" + opt]), ("c19_cache.cpp", ["-DC19_THREAD_LOCAL_VARIANT", "-O1"])]
CHECKS["C19"] = dict(
    level=MC, engine="schedule-explorer",
    technique="stateless depth-first exploration of thread interleavings (ucontext fibres, scheduling point at every compiler-instrumented access to the cache object) with preemption bounding and state hashing",
    rule="detail::cache<Tok,N> in the shared (CAS) configuration, N=1..4, roots {empty, one entry, full}; thread x operation plans 2x1, 2x2, 2x3, 3x1 with UNBOUNDED preemptions (state hashing makes the search finite), "
         "3x2 with preemption bound 2 (thorough 4), thorough also 3x3 with bound 3 (N<=2); every assignment of {insert fresh token, get} to the operation slots up to thread symmetry; compare_exchange_weak may fail "
         "spuriously once per execution; two builds of the instrumented TU (-O0 source order, -O2). Oracle at quiescence: every fetched token was inserted, none twice, failed inserts handed to nobody, drain == inserted minus "
         "fetched, at most N held, no livelock. Sequential part: all 2^(2N+4) insert/get strings on both variants against a bounded LIFO stack. states = distinct hashed choice-point states, transitions = choice points executed, "
         "traces = complete executions of the real code",
    assumptions=["sequential consistency (on x86-TSO each plain store is followed by a locked cmpxchg before it can matter to another thread)", "at most 3 threads, 3 operations each", "deviation bound 1 for spurious CAS failures"],
    runs=[run("c19_O0", c19_srcs("O0"), "vsched", nolib=True, shards=16, args=["--opt", "O0"]),
          run("c19_O2", c19_srcs("O2"), "vsched", nolib=True, shards=16, args=["--opt", "O2"])],
)

CHECKS["C18"] = dict(
    level=MC, engine="schedule-explorer",
    technique="preemption-bounded exhaustive exploration of real pthreads serialised by a baton (scheduling points at channel operations and at every operator new[]/delete[]), plus a separate free-running ThreadSanitizer pass",
    rule="bodies: own vectors (sum, commutators, both evolutions, rotation, UTransform -> matrix exponential), hand-over ring (a block allocated on one thread is released on the next and reused there), const queries of "
         "all expectation-value overloads on one shared evolved solver (odd threads start with a buffer-less query on a shared operator), thread exit with a filled cache, every thread building / evolving (GSL) / moving / querying its own solver. Explorer pass (ASan, arena allocator): every interleaving of 2 threads with at most 2 preemptions (quick) / 2 and 3 "
         "threads with bounds up to 4 (thorough), bound iterated 0,1,2,..; oracle: each thread's results bit-identical to the sequential schedule and to the main thread's values, ledger clean, nothing retained after all "
         "threads ended, blocks cached by a thread released when it ends. Race pass (clang -fsanitize=thread, free running, 20 repetitions per body): any report is a violation. Scenario library-calls: 12 GSL entry points interposed and modelled as non-atomic steps (mark argument storage in use, yield, then call); a second thread entering a call on storage in use (one side writing) and a changed process-wide error handler are violations. "
         "states/transitions = choice points executed, traces = complete executions",
    assumptions=["GSL is not instrumented", "at most 3 threads", "race freedom is decided by the happens-before detector of the free-running pass; the explorer enumerates interleavings at synchronisation / allocation granularity"],
    runs=[run("c18", ["c18.cpp"], "asan", shards=7, timeout={"quick": 3600, "thorough": 7200}),
          run("c18_tsan", [("c18.cpp", ["-DC18_FREE"])], "tsan", env={"TSAN_OPTIONS": "halt_on_error=0:exitcode=66:second_deadlock_stack=1"})],
)
NOT_APPLICABLE = {}
