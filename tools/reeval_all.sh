#!/bin/sh
# usage: tools/reeval_all.sh [parallelism]   -- re-runs, for every seeded change, the quick check recorded as catching it
# (scratch worktrees, VERIF_REPO) and prints one line per seed: CAUGHT / MISSED / NOAPPLY. Results in /tmp/seedchk/reeval/.
P=${1:-3}
mkdir -p /tmp/seedchk/reeval
ls -d /verif/seeded/*/ | xargs -P "$P" -I{} sh -c '
  d={}; n=$(basename $d); id=$(python3 -c "import json;print(json.load(open(\"$d/meta.json\"))[\"caught_by\"].split()[0])")
  out=/tmp/seedchk/reeval/$n.txt
  /verif/tools/try_seed.sh $d $id > $out 2>&1
  if grep -q "patch does not apply" $out; then echo "$n $id NOAPPLY"; elif grep -q "^VIOLATION" $out; then echo "$n $id CAUGHT $(grep -m1 signature: $out | cut -c1-110)"; else echo "$n $id MISSED"; fi'
