#!/bin/sh
# usage: tools/try_seed.sh <seeded-dir-or-patch> <ID> [<ID> ...] [--tier T]
# Applies a seeded change to a scratch worktree of /repo (so /repo itself and anything running against it are never
# disturbed), runs the named checks against that tree (VERIF_REPO), and removes the worktree afterwards.
P="$1"; shift
[ -d "$P" ] && P="$P/patch.diff"
P=$(readlink -f "$P")
TIER=quick
IDS=""
while [ $# -gt 0 ]; do case "$1" in --tier) TIER="$2"; shift 2;; *) IDS="$IDS $1"; shift;; esac; done
W=/tmp/tryseed-$$
/verif/tools/mk_worktree.sh "$W" >/dev/null || exit 2
trap 'git -C /repo worktree remove --force "$W" >/dev/null 2>&1; echo "[scratch worktree removed]"' EXIT INT TERM
git -C "$W" apply "$P" || { echo "patch does not apply"; exit 2; }
for id in $IDS; do
  VERIF_REPO="$W" python3 /verif/check.py "$id" --tier "$TIER" 2>&1 | grep -v "^  info\|^  stats" | cut -c1-260
done
exit 0
