#!/bin/sh
# usage: tools/try_seed.sh <seeded-dir-or-patch> <ID> [<ID> ...] [--tier T]
# Applies a seeded change to /repo, runs the named checks, and ALWAYS reverts /repo afterwards.
P="$1"; shift
[ -d "$P" ] && P="$P/patch.diff"
TIER=quick
IDS=""
while [ $# -gt 0 ]; do case "$1" in --tier) TIER="$2"; shift 2;; *) IDS="$IDS $1"; shift;; esac; done
if ! git -C /repo diff --quiet; then echo "refusing: /repo has uncommitted changes"; exit 2; fi
git -C /repo apply "$P" || { echo "patch does not apply"; exit 2; }
trap 'git -C /repo checkout -- . ; echo "[/repo reverted]"' EXIT INT TERM
RC=0
for id in $IDS; do
  python3 /verif/check.py "$id" --tier "$TIER" 2>&1 | grep -v "^  info\|^  stats" | cut -c1-260
  [ "${PIPESTATUS:-0}" != "0" ] && RC=1
done
exit 0
