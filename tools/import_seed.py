#!/usr/bin/env python3
"""import_seed.py <src-dir> <name> <property> <author> <needs> <caught_by> <signature> [<note>]
Copies a verified seeded change into /verif/seeded/<name>/ and writes meta.json; appends a row to seeded/INDEX.md."""
import sys, os, shutil, json, glob
src, name, prop, author, needs, caught_by, sig = sys.argv[1:8]
note = sys.argv[8] if len(sys.argv) > 8 else ""
dst = os.path.join("/verif/seeded", name)
os.makedirs(dst, exist_ok=True)
for f in glob.glob(os.path.join(src, "*")):
    b = os.path.basename(f)
    if os.path.isfile(f) and os.path.getsize(f) < 200000 and not b.endswith((".o", ".bin", ".log")) and b not in ("demo", "a.out"):
        shutil.copy(f, dst)
res = ""
rp = "/tmp/seedchk/%s.result" % name
if os.path.exists(rp):
    res = open(rp).read().strip()
meta = {"name": name, "breaks_property": prop, "author": author, "needs_to_manifest": needs,
        "verified_by_me": {"method": "tools/verify_seed.sh in a fresh scratch worktree: demo on clean tree, make && make test with the change, demo with the change", "result": res},
        "caught_by": caught_by, "signature_reported": sig, "how_run": "tools/try_seed.sh seeded/%s %s" % (name, caught_by.split()[0]), "note": note}
json.dump(meta, open(os.path.join(dst, "meta.json"), "w"), indent=1)
idx = "/verif/seeded/INDEX.md"
if not os.path.exists(idx):
    open(idx, "w").write("# Seeded changes and the checks that catch them\n\nEach directory holds `patch.diff` (applies to /repo with `git apply`), the author's demonstration and `meta.json`.\n"
                         "All keep `make && make test` at 24/24. `tools/try_seed.sh seeded/<name> <ID>` applies, runs the quick check and reverts.\n\n"
                         "| name | breaks | what it needs to manifest | caught by (quick tier) | signature | note |\n|---|---|---|---|---|---|\n")
open(idx, "a").write("| %s | %s | %s | %s | `%s` | %s |\n" % (name, prop, needs.replace("|", "/"), caught_by, sig, note))
print("imported", name)
