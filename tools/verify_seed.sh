#!/bin/sh
# usage: verify_seed.sh <seed-dir-with-patch.diff,demo.cpp,build_and_run.sh> <name>
# Confirms independently, in a fresh scratch worktree: demo passes on the clean tree, `make test` still passes with the
# change, demo fails with the change. Prints one summary line. Removes the worktree afterwards.
S="$1"; N="$2"; W=/tmp/seedchk/$N
rm -rf "$W"; /verif/tools/mk_worktree.sh "$W" >/dev/null || exit 2
mkdir -p "$W/seed"; cp "$S"/* "$W/seed/" 2>/dev/null
cd "$W" || exit 2
make >/dev/null 2>&1
sh seed/build_and_run.sh >seed/clean.log 2>&1; RC_CLEAN=$?
git apply seed/patch.diff || { echo "$N: PATCH DOES NOT APPLY"; exit 2; }
# the Makefile does not track the generated kernels / detail headers as dependencies: rebuild everything
make clean >/dev/null 2>&1; make >/dev/null 2>&1
TESTS=$(make test 2>&1 | tail -1)
sh seed/build_and_run.sh >seed/mutant.log 2>&1; RC_MUT=$?
echo "$N: demo_clean_rc=$RC_CLEAN demo_mutant_rc=$RC_MUT tests='$TESTS'"
cd /; git -C /repo worktree remove --force "$W"
