#!/bin/sh
# usage: eval_seeds.sh <suffix>   -- for every /tmp/seed/<ID><suffix>/seed/patch.diff not yet evaluated: run the property's quick check against it
SUF="$1"
for id in C01 C02 C03 C04 C05 C06 C07 C08 C09 C10 C11 C12 C13 C14 C15 C16 C17 C18 C19; do
  D=/tmp/seed/${id}${SUF}/seed
  OUT=/tmp/seedchk/${id}${SUF}.try
  [ -f "$D/patch.diff" ] && [ -f "$D/README.md" ] || continue
  [ -f "$OUT" ] && continue
  /verif/tools/try_seed.sh "$D" "$id" > "$OUT.tmp" 2>&1
  mv "$OUT.tmp" "$OUT"
  if grep -q "^VIOLATION" "$OUT"; then echo "${id}${SUF}: CAUGHT $(grep -m1 signature: "$OUT" | cut -c1-140)"; else echo "${id}${SUF}: MISSED"; fi
done
