#!/usr/bin/env python3
"""Applies each hand-written mutant to a scratch worktree, runs the quick check of its property against it (VERIF_REPO),
and reports whether a VIOLATION was raised. Usage: run_mutants.py [name-substring ...]"""
import sys, os, subprocess, json
sys.path.insert(0, "/verif/mutants")
from mutants import MUTANTS
sel = sys.argv[1:]
res = []
for m in MUTANTS:
    if sel and not any(s in m["name"] for s in sel):
        continue
    w = "/tmp/mutant-%s-%d" % (m["name"], os.getpid())
    subprocess.check_call(["/verif/tools/mk_worktree.sh", w], stdout=subprocess.DEVNULL)
    try:
        p = os.path.join(w, m["file"]); s = open(p).read()
        if s.count(m["old"]) != 1:
            res.append((m["name"], m["prop"], "MUTATION SITE NOT FOUND (%d matches)" % s.count(m["old"]))); continue
        open(p, "w").write(s.replace(m["old"], m["new"]))
        env = dict(os.environ, VERIF_REPO=w)
        r = subprocess.run([sys.executable, "/verif/check.py", m["prop"], "--tier", "quick"], env=env, stdout=subprocess.PIPE, stderr=subprocess.STDOUT, universal_newlines=True)
        sigs = [l.split("signature:")[1].strip() for l in r.stdout.splitlines() if "signature:" in l]
        res.append((m["name"], m["prop"], "exit=%d %s" % (r.returncode, ("caught: " + sigs[0][:90]) if sigs else "NOT CAUGHT")))
    finally:
        subprocess.call(["git", "-C", "/repo", "worktree", "remove", "--force", w], stdout=subprocess.DEVNULL, stderr=subprocess.DEVNULL)
    print("%-28s %s  %s" % res[-1], flush=True)
json.dump(res, open("/verif/build/mutants_result.json", "w"), indent=1)
